#!/usr/bin/env python3
"""Writes /verif/MANIFEST.json (kept in one place so that it stays consistent)."""
import json
import os
import subprocess

VERIF = os.path.dirname(os.path.dirname(os.path.abspath(__file__)))

NA = {
    "C03": "pure function of (live documents, query tree, collector): no schedule, clock, fault or crash participates, so simulation could only re-label input generation (DESIGN.md §6)",
    "C06": "top-K/paging is a pure function of (corpus, query, K, offset, sort key); the multi-threaded executor places results by index, no schedule-dependent observable (DESIGN.md §6)",
    "C07": "postings/term-dictionary content is a pure function of one segment's documents and schema (DESIGN.md §6)",
    "C08": "column values, min/max and range lookups are pure functions of column content and merge order (DESIGN.md §6)",
    "C09": "stored-document round-trip is a pure function of documents x store settings (DESIGN.md §6)",
    "C12": "BM25/explain is deterministic arithmetic over searcher statistics (DESIGN.md §6)",
    "C13": "the DocSet contract is about sequential call programs on a single-owner object; no thread, fault or I/O participates (DESIGN.md §6)",
    "C14": "aggregation results and intermediate-result merging are pure functions of (corpus, request, partition, merge order given as input) (DESIGN.md §6)",
    "C15": "dictionary behaviour is a pure function of the key set and block parameters (DESIGN.md §6)",
    "C16": "parsing is a pure total function of the input string (DESIGN.md §6)",
    "C19": "tokenisation and snippet offsets are pure functions of (text, analyzer, query) (DESIGN.md §6)",
}

TRUST = ("shuttle 0.9.3 scheduler model (scheduling points at its sync primitives, SeqCst atomics); shims for crossbeam-channel/rayon/"
         "oneshot/census/arc-swap; SimDirectory storage model instead of MmapDirectory+kernel; small indexes; seeded sampling, not proof")

CHECKS = {
    "C01": ("fault_enumeration",
            "Every boundary between two storage operations of each simulated run (all threads) is turned into crash images under minimal / "
            "maximal / seeded-random persistence outcomes and re-opened against the model of acknowledged and in-flight commits, including "
            "checksum validation, removal of unreferenced files and a new writer + commit + GC on the image. Enumeration over crash points of "
            "sampled (history, schedule) pairs is the right level: the property quantifies over crash points and storage outcomes.",
            "§5 C01", "deterministic simulation: crash-point enumeration over seeded histories and schedules on a simulated disk"),
    "C02": ("exploration",
            "Seeded histories over the full writer API run on real tantivy under seeded schedules (random/PCT/burst/starve) next to a sequential "
            "model; content (multiset of logical records), opstamps and payload are compared after every commit, every rollback, at every "
            "meta.json publication and at quiescence; concurrent producers are checked for linearizability.",
            "§5 C02", "deterministic simulation: seeded schedule/history search vs sequential reference model"),
    "C04": ("exploration",
            "Merge-heavy histories with merge/updater/worker threads starved at seeded points; every meta.json publication (commits and "
            "end_merge) is re-opened and compared with the model, so a merge that changes content is seen even if a later commit hides it.",
            "§5 C04", "deterministic simulation: seeded schedule search, publication oracle vs reference model"),
    "C17": ("exploration",
            "The C02/C04 simulation with sort_by_field always set (all sort field types and directions): per-segment sort invariant plus the "
            "unchanged content oracle at every commit, publication and at quiescence.",
            "§5 C17", "deterministic simulation: sorted-index configuration of the history/merge search"),
    "C05": ("exploration",
            "Reader threads (same Index and a second Index::open on the same storage) reload, hold and re-fingerprint searchers while the "
            "writer commits, merges, rolls back, collects garbage and shuts down; every reload must be one published commit, monotone per "
            "reader, held searchers bit-identical.",
            "§5 C05", "deterministic simulation: seeded interleavings of readers vs writer/GC, history check against published commits"),
    "C10": ("exploration",
            "GC interleaved with workers, merges, reloads of a second Index, rollbacks and writer restarts; needed-file monitor during the run, "
            "exact directory == committed files + metadata and .managed.json == existing files at scheduler-defined quiescence and on "
            "recovered crash images.",
            "§5 C10", "deterministic simulation: seeded schedule search with quiescence invariant on the simulated directory"),
    "C11": ("fault_enumeration",
            "For sampled (history, schedule) pairs every storage operation index k is made to fail (once / from k on / ENOSPC; torn writes; "
            "lazy read errors; thread-spawn failure), on whichever thread issues it; every API result, the absence of panics/deadlocks, the "
            "durable state and recovery on the same storage are checked.",
            "§5 C11", "deterministic simulation: fault-point enumeration (I/O error at op k) with recovery oracle"),
    "C18": ("exploration",
            "Writer lifecycles (create, rollback, drop, wait_merging_threads, failed constructions, killed workers, racing creations from "
            "several threads and Index handles) against a 1-bit lock model, on both lock implementations.",
            "§5 C18", "deterministic simulation: seeded lifecycles and racing creations vs lock model"),
    "C20": ("fault_enumeration",
            "Indexes written under short writes / EINTR, then every single-bit flip of small files, every truncation length, extensions, "
            "multi-byte damage and footer-version damage on a copy of the stored bytes; validate_checksum/open_read must report, never panic "
            "or pass.",
            "§5 C20", "deterministic simulation: stored-byte fault enumeration on the simulated disk"),
}


def main():
    import sys
    sys.path.insert(0, os.path.join(VERIF, "tools"))
    import plans
    claimed = [p for p in CHECKS if p in plans.PLANS]
    commits = subprocess.check_output(
        ["git", "-C", "/repo", "log", "--format=%h %s", "9c884d726..HEAD"], text=True).strip().split("\n")
    hooks = [c.split()[0] for c in commits if "verif hook" in c]
    checks = []
    for p in sorted(claimed):
        lvl, text, ref, tech = CHECKS[p]
        checks.append({
            "property_id": p,
            "quick_cmd": "./check %s quick" % p,
            "thorough_cmd": "./check %s thorough" % p,
            "evidence_file": "/verif/evidence/%s.json" % p,
            "replay_cmd_template": "./check replay {path}",
            "engine": "tvsim",
            "level_claimed": {"category": lvl, "text": text, "design_ref": ref},
            "level_note": TRUST,
            "technique": tech,
        })
    na = [{"property_id": k, "reason": v} for k, v in NA.items()]
    for p in CHECKS:
        if p not in claimed:
            na.append({"property_id": p, "reason": "claimed by DESIGN.md but its check is not registered yet (under construction); nothing is asserted for it at this commit"})
    m = {
        "version": 1,
        "setup_cmd": "./check setup",
        "hooks": {
            "guard": "--cfg tantivy_verif_sim",
            "enable": "rustflags --cfg tantivy_verif_sim in /verif/sim/.cargo/config.toml; /verif/sim builds /repo/src through a generated shadow manifest (tools/gen_shadow.py) that adds the shuttle dependency and patches crossbeam-channel/rayon/oneshot/census/arc-swap with shims",
            "baseline_off_cmd": "cd /repo && cargo nextest run --workspace --no-fail-fast --test-threads 8 --offline",
            "source_commits": hooks[::-1],
            "add_only": True,
        },
        "engines": [{"name": "tvsim", "path": "/verif/sim", "serves_properties": sorted(claimed),
                     "kind_free_text": "deterministic simulation of real tantivy under a seeded shuttle scheduler with a simulated disk (SimDirectory), fault injection, crash images and a sequential reference model"}],
        "checks": checks,
        "notes": "All checks: cwd=/verif, VERIF_SEED (default 1) selects the run-seed stream, exit 0/1/2 = held / VIOLATION line printed / harness error. Genuine defects found and repaired are listed in known_findings.json (fixed) and DESIGN.md §8.",
        "not_applicable": na,
    }
    json.dump(m, open(os.path.join(VERIF, "MANIFEST.json"), "w"), indent=1)
    print("claimed:", sorted(claimed))


if __name__ == "__main__":
    main()
