#!/usr/bin/env python3
"""Rewrites the table of DESIGN.md §11 from /verif/seeded/*/meta.json."""
import glob, json, os, re
V = os.path.dirname(os.path.dirname(os.path.abspath(__file__)))
rows = []
for f in sorted(glob.glob(os.path.join(V, "seeded", "*", "meta.json"))):
    m = json.load(open(f))
    checks = "; ".join("%s: %s" % (k, v) for k, v in m.get("checks", {}).items())
    hist = m.get("checks_history") or {}
    notes = "; ".join("%s: %s" % (k, v) for k, v in hist.items() if "missed before" in v or "after " in v)
    if notes:
        checks += " — history: " + notes
    summ = (m.get("summary") or "").replace("\n", " ").replace("|", "/")
    need = (m.get("needs_to_manifest") or "").replace("\n", " ").replace("|", "/")
    rows.append("| `%s` | %s | %s | %s | %s |" % (m["id"], m["property"], summ[:420], need[:380], checks))
table = "| id | written for | change | needs to manifest | checks (quick tier, VERIF_SEED=1) |\n|---|---|---|---|---|\n" + "\n".join(rows)
p = os.path.join(V, "DESIGN.md")
s = open(p).read()
a = s.index("<!-- SEEDED-TABLE-BEGIN -->") + len("<!-- SEEDED-TABLE-BEGIN -->")
b = s.index("<!-- SEEDED-TABLE-END -->")
s = s[:a] + "\n" + table + "\n" + s[b:]
open(p, "w").write(s)
print(len(rows), "rows")
