#!/bin/bash
# try_mutant.sh <patch.diff> <out_prefix> <prop> [<prop>...]: apply a seeded change to /repo, run the quick checks, undo it.
set -u
PATCH=$1; OUT=$2; shift 2
R=${TRY_REPO:-/repo}
cd $R || exit 9
if [ -n "$(git status --porcelain --untracked-files=no)" ]; then echo "/repo is dirty"; exit 9; fi
if ! git apply --3way "$PATCH" 2>/dev/null; then git reset -q --hard HEAD; echo "PATCH DOES NOT APPLY"; exit 8; fi
git reset -q
cd ${VERIF_DIR:-/verif}
# evidence files must only ever come from runs against the unchanged /repo: keep the current ones aside
rm -rf /tmp/try_evidence_keep && cp -r evidence /tmp/try_evidence_keep
for p in "$@"; do
  ( time VERIF_REPO=$R ./check $p quick ) > ${OUT}_$p.log 2>&1
  echo "$p exit=$? $(grep -E '^VIOLATION|^HARNESS|^KNOWN' ${OUT}_$p.log | head -2 | tr '\n' ' ')"
done
rm -rf evidence && cp -r /tmp/try_evidence_keep evidence
git -C $R reset -q --hard HEAD
git -C $R status --porcelain --untracked-files=no | head -3
