"""Per-property run plans, evidence texts."""

PLANS = {
    "C01": {"quick": {"runs": 1200, "budget_s": 80, "det": 16}, "thorough": {"runs": 60000, "budget_s": 1500, "det": 64}},
    "C11": {"quick": {"runs": 1100, "budget_s": 80, "det": 4}, "thorough": {"runs": 12000, "budget_s": 1500, "det": 16}},
    "C02": {"quick": {"runs": 12000, "budget_s": 75, "det": 32, "also": [("C02P", 5000)]},
            "thorough": {"runs": 900000, "budget_s": 1100, "det": 256, "also": [("C02P", 400000)], "also_budget_s": 400}},
    "C05": {"quick": {"runs": 16000, "budget_s": 75, "det": 32}, "thorough": {"runs": 1200000, "budget_s": 1500, "det": 256}},
    "C10": {"quick": {"runs": 16000, "budget_s": 75, "det": 32}, "thorough": {"runs": 1200000, "budget_s": 1500, "det": 256}},
    "C18": {"quick": {"runs": 60000, "budget_s": 60, "det": 64}, "thorough": {"runs": 3000000, "budget_s": 1200, "det": 512}},
    "C20": {"quick": {"runs": 700, "budget_s": 80, "det": 4}, "thorough": {"runs": 12000, "budget_s": 1500, "det": 16}},
    "C04": {"quick": {"runs": 14000, "budget_s": 75, "det": 32}, "thorough": {"runs": 1000000, "budget_s": 1500, "det": 256}},
    "C17": {"quick": {"runs": 14000, "budget_s": 75, "det": 32}, "thorough": {"runs": 1000000, "budget_s": 1500, "det": 256}},
}

LEVELS = {
    "C01": "fault_enumeration", "C02": "exploration", "C04": "exploration", "C05": "exploration",
    "C10": "exploration", "C11": "fault_enumeration", "C17": "exploration", "C18": "exploration",
    "C20": "fault_enumeration",
}

RULES = {
    "C05": "one case = swarm configuration + writer history (commits, merges, rollbacks, delete_all, GC, writer restarts) + 1..3 reader "
           "threads on 1..2 IndexReaders (one of them on a second Index::open of the same storage, i.e. protected by META_LOCK only; "
           "sometimes two threads share one IndexReader; Manual or OnCommitWithDelay) that reload / look / hold searchers, under seeded "
           "schedules incl. starve(reader|updater|merge|watch). Every observation is recorded with storage-op and scheduler-step "
           "stamps and checked afterwards: == exactly one commit that was current or in flight during the reload, never going back on "
           "the same IndexReader in real-time order, reloads never fail, held searchers keep their fingerprint through commits, "
           "merges, GC and writer shutdown. Non-trivial: >=1 commit and >=1 reload that overlapped storage operations of other threads.",
    "C10": "the C05 simulation with a second-Index reader always present and more explicit GC, attributed to C10: reloads must never "
           "miss a file (needed-file monitor), and at scheduler-defined quiescence after a final GC the directory is exactly the files "
           "of the committed segments + meta.json + .managed.json, and .managed.json lists exactly the managed files that exist; the "
           "same equality is checked on recovered crash images by C01 and after fault recovery by C11.",
    "C18": "one case = seeded lifecycle over {create writer (valid / budget too small / too large / zero threads) on either of two Index "
           "handles, rollback, drop, wait_merging_threads, attempt while locked, 2..3 racing creations from threads, kill a worker by "
           "I/O errors then drop, rollback under I/O errors then retry, wait_merging_threads with a merge in flight while two "
           "threads try to create a writer, drop with a backlog of uncommitted documents while two threads try to create a writer; "
           "racing holders add+commit one document each} against a 1-bit lock model, on tantivy's file-based lock (70%) or the harness flock (30%). "
           "Non-trivial: >=1 refused attempt or one race. Adjunct: the real MmapDirectory under strace -- its writer-lock lifecycle "
           "(refused while alive, kept across rollback, released by drop / wait_merging_threads / failed construction) and the "
           "contract the harness flock assumes (exclusive flock on lock files that are never unlinked or renamed) "
           "(coverage.mmap_directory_adjunct).",
    "C20": "one case = an index written by a seeded history under short writes / EINTR on every writer; then for every file of every "
           "committed segment: every single-bit flip of the body (files with body <= 96 B in quick, <= 4 KiB in thorough; else sampled "
           "positions), every truncation length (sampled for larger files in quick), extensions by 1..64 bytes, multi-byte "
           "substitutions, and footer format versions outside [4,7] (refused through open_read and get_file_handle alternately); each "
           "damaged copy is validated; every intact file is read back through open_read and get_file_handle and compared with the "
           "written body. evaluations = executions + "
           "damage cases; non-trivial: >=1 damage case.",
    "C11": "one base case = swarm configuration + operation history + schedule seed, first executed fault-free (which records its "
           "N storage operations), then re-executed once per fault point: an I/O error at storage op k -- quick: 24 stratified k "
           "per base case with one flavour each, thorough: every k x {fails once, fails from k on, ENOSPC from k on} -- on whichever "
           "thread issues op k (indexing worker, doc-store compressor, segment updater, merge thread, GC, reader side of the "
           "harness incl. reloads of a reader on a second Index), with torn writes and lazy read handles as swarm options, plus "
           "thread-spawn failures at sampled/every spawn index; once a fault has fired the state on storage is re-opened and "
           "matched against the allowed commits after every further operation. evaluations = base executions + faulted executions; non-trivial: the fault fired inside the workload; distinct: "
           "storage event-log hash of the faulted execution.",
    "C01": "one case = swarm configuration + operation history (adds, deletes, batches, delete_all, commits, prepared commits, "
           "rollbacks, merges, writer restarts, GC; short writes and EINTR on every writer) executed under a seeded schedule; "
           "afterwards the durable image at EVERY boundary between two storage operations of the run (from any thread) is "
           "reconstructed under five persistence outcomes -- minimal (un-synced names and data lost), maximal (all present), "
           "renames-only (un-synced atomic replacements applied, creations/unlinks/data lost), seeded random (prefix of un-synced "
           "namespace ops; each un-synced tail lost / cut at a random byte / present), seeded subset (each un-synced namespace op "
           "applied or not); the two seeded outcomes at every third boundary in quick -- "
           "deduplicated by (content hash, allowed commits) and re-opened: opens, checksums clean, content/opstamp/payload == "
           "the last acknowledged commit or the commit in flight, still so with every unreferenced file removed, and (1 in 8 "
           "images in quick, all in thorough) a new writer + add + commit + GC succeed and leave exactly the committed files. "
           "evaluations = executions + images built; non-trivial run: >=1 acknowledged commit and >=2 distinct images; "
           "distinct: storage event-log hash. Adjunct: the real MmapDirectory under strace, per-call and per-commit durability "
           "checks at syscall level (coverage.mmap_directory_adjunct).",
    "C02": "one case = seeded swarm configuration (1..8 indexing threads, merge policy, segment-cut knob, store settings, "
           "sorted or not, lock flavour) + seeded operation history over {add, delete_term, delete_query, run(batch), "
           "delete_all, commit, prepare_commit+payload/abort, rollback, merge, wait_merging_threads, drop+reopen, gc} + "
           "seeded scheduler strategy (random / pct(1..4) / burst / starve(thread class) / stall(thread class)); swarm knobs: "
           "segment cut after N docs, 15 MB or 3 MB budget, pipeline capacity 1..4 or 10 000; producers variant: 2..4 threads "
           "calling add_document / delete_term / run(group) on a shared writer, checked for linearizability (real-time order) "
           "and commit opstamp above every returned opstamp; plus scenario sweeps (scenarios/C02: thousands of seeded schedules "
           "of small fixed histories). Non-trivial: >=1 commit acknowledged with documents (or >=2 "
           "commits). Distinct: different hash of the complete storage event log (thread, op kind, path, length, outcome).",
    "C04": "as C02 with a merge-heavy grammar (explicit merges of seeded segment subsets, left pending or waited, policy "
           "merges) and starve(merge_thread|segment_updater|worker) schedules; every meta.json publication (commit and "
           "end_merge) is re-opened and compared with the model. Non-trivial: >=1 commit and (>=1 explicit merge completed or "
           "a merge republished meta.json). Distinct: different storage event-log hash.",
    "C17": "as C04 with IndexSettings.sort_by_field always set (type x direction from the swarm, values with duplicates, "
           "extremes and ~20% missing). Non-trivial/distinct as C04.",
}

ASSUMPTIONS = [
    "interleavings are explored at the scheduling points of shuttle primitives, SimDirectory operations and ArcSwap load/store; atomics are sequentially consistent",
    "crossbeam-channel, rayon, oneshot, census and arc-swap are replaced by shims with the same observable semantics built on shuttle Mutex/Condvar",
    "storage below the Directory trait is the SimDirectory model (data durable at terminate, names durable at sync_directory, un-synced namespace operations persist as a prefix); MmapDirectory itself is not executed",
    "indexes are small (<= 64 documents, <= ~12 segments); the segment cut is driven by a doc-count knob instead of the memory budget",
    "seeded sampling: a clean batch is evidence over the sampled schedules, faults and histories, not a proof",
]

COMPONENTS = {
    "real": ["tantivy src/** (IndexWriter, SegmentUpdater, merger, ManagedDirectory, FooterProxy, IndexReader, default Directory::acquire_lock, WatchCallbackList, FutureResult)",
             "tantivy-common, -columnar, -sstable, -stacker, -bitpacker, ownedbytes, tokenizer-api, query-grammar"],
    "stub": ["std::sync / std::thread -> shuttle models", "crossbeam-channel, rayon (ThreadPool), oneshot, census, arc-swap -> shims on shuttle primitives",
             "MmapDirectory + kernel + disk -> SimDirectory (its storage contract and its flock-based lock contract are checked "
             "separately on the real MmapDirectory under strace: adjuncts of C01 and C18)"],
}
