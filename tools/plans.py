"""Per-property run plans, evidence texts."""

PLANS = {
    "C01": {"quick": {"runs": 900, "budget_s": 80, "det": 16}, "thorough": {"runs": 60000, "budget_s": 1500, "det": 64}},
    "C11": {"quick": {"runs": 1100, "budget_s": 80, "det": 4}, "thorough": {"runs": 12000, "budget_s": 1500, "det": 16}},
    "C02": {"quick": {"runs": 16000, "budget_s": 75, "det": 32}, "thorough": {"runs": 1200000, "budget_s": 1500, "det": 256}},
    "C04": {"quick": {"runs": 14000, "budget_s": 75, "det": 32}, "thorough": {"runs": 1000000, "budget_s": 1500, "det": 256}},
    "C17": {"quick": {"runs": 14000, "budget_s": 75, "det": 32}, "thorough": {"runs": 1000000, "budget_s": 1500, "det": 256}},
}

LEVELS = {
    "C01": "fault_enumeration", "C02": "exploration", "C04": "exploration", "C05": "exploration",
    "C10": "exploration", "C11": "fault_enumeration", "C17": "exploration", "C18": "exploration",
    "C20": "fault_enumeration",
}

RULES = {
    "C11": "one base case = swarm configuration + operation history + schedule seed, first executed fault-free (which records its "
           "N storage operations), then re-executed once per fault point: an I/O error at storage op k -- quick: 24 stratified k "
           "per base case with one flavour each, thorough: every k x {fails once, fails from k on, ENOSPC from k on} -- on whichever "
           "thread issues op k (indexing worker, doc-store compressor, segment updater, merge thread, GC, reader side of the "
           "harness), with torn writes and lazy read handles as swarm options, plus thread-spawn failures at sampled/every spawn "
           "index. evaluations = base executions + faulted executions; non-trivial: the fault fired inside the workload; distinct: "
           "storage event-log hash of the faulted execution.",
    "C01": "one case = swarm configuration + operation history (adds, deletes, batches, delete_all, commits, prepared commits, "
           "rollbacks, merges, writer restarts, GC; short writes and EINTR on every writer) executed under a seeded schedule; "
           "afterwards the durable image at EVERY boundary between two storage operations of the run (from any thread) is "
           "reconstructed under three persistence outcomes -- minimal (un-synced names and data lost), maximal (all present), "
           "seeded random (prefix of un-synced namespace ops; each un-synced tail lost / cut at a random byte / present) -- "
           "deduplicated by (content hash, allowed commits) and re-opened: opens, checksums clean, content/opstamp/payload == "
           "the last acknowledged commit or the commit in flight, still so with every unreferenced file removed, and (1 in 8 "
           "images in quick, all in thorough) a new writer + add + commit + GC succeed and leave exactly the committed files. "
           "evaluations = executions + images built; non-trivial run: >=1 acknowledged commit and >=2 distinct images; "
           "distinct: storage event-log hash.",
    "C02": "one case = seeded swarm configuration (1..8 indexing threads, merge policy, segment-cut knob, store settings, "
           "sorted or not, lock flavour) + seeded operation history over {add, delete_term, delete_query, run(batch), "
           "delete_all, commit, prepare_commit+payload/abort, rollback, merge, wait_merging_threads, drop+reopen, gc} + "
           "seeded scheduler strategy (random / pct(1..4) / burst / starve(thread class)); producers variant: 1..3 threads "
           "on a shared writer checked for linearizability. Non-trivial: >=1 commit acknowledged with documents (or >=2 "
           "commits). Distinct: different hash of the complete storage event log (thread, op kind, path, length, outcome).",
    "C04": "as C02 with a merge-heavy grammar (explicit merges of seeded segment subsets, left pending or waited, policy "
           "merges) and starve(merge_thread|segment_updater|worker) schedules; every meta.json publication (commit and "
           "end_merge) is re-opened and compared with the model. Non-trivial: >=1 commit and (>=1 explicit merge completed or "
           "a merge republished meta.json). Distinct: different storage event-log hash.",
    "C17": "as C04 with IndexSettings.sort_by_field always set (type x direction from the swarm, values with duplicates, "
           "extremes and ~20% missing). Non-trivial/distinct as C04.",
}

ASSUMPTIONS = [
    "interleavings are explored at the scheduling points of shuttle primitives, SimDirectory operations and ArcSwap load/store; atomics are sequentially consistent",
    "crossbeam-channel, rayon, oneshot, census and arc-swap are replaced by shims with the same observable semantics built on shuttle Mutex/Condvar",
    "storage below the Directory trait is the SimDirectory model (data durable at terminate, names durable at sync_directory, un-synced namespace operations persist as a prefix); MmapDirectory itself is not executed",
    "indexes are small (<= 64 documents, <= ~12 segments); the segment cut is driven by a doc-count knob instead of the memory budget",
    "seeded sampling: a clean batch is evidence over the sampled schedules, faults and histories, not a proof",
]

COMPONENTS = {
    "real": ["tantivy src/** (IndexWriter, SegmentUpdater, merger, ManagedDirectory, FooterProxy, IndexReader, default Directory::acquire_lock, WatchCallbackList, FutureResult)",
             "tantivy-common, -columnar, -sstable, -stacker, -bitpacker, ownedbytes, tokenizer-api, query-grammar"],
    "stub": ["std::sync / std::thread -> shuttle models", "crossbeam-channel, rayon (ThreadPool), oneshot, census, arc-swap -> shims on shuttle primitives",
             "MmapDirectory + kernel + disk -> SimDirectory"],
}
