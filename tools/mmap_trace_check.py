#!/usr/bin/env python3
"""Checks an strace of /verif/mmapcheck (real MmapDirectory driven through tantivy) against the storage
model the simulated disk assumes (DESIGN.md §3.3/§3.9):

  per Directory call (bracketed by /TVMARK/ marker syscalls, on the thread that issues it)
    open_write(p)    : openat(dir/p, O_CREAT|O_EXCL) succeeds
    terminate(p)     : f(data)sync(fd of p) succeeds after the last write to p; no write to p afterwards
    atomic_write(p)  : a temp file is created, written, f(data)sync'ed, THEN renamed onto dir/p
    sync_directory   : f(data)sync on a descriptor of the directory itself
    delete(p)        : unlink(dir/p)
  end to end, at the return of every commit(): in the MINIMAL durable image (names durable only after a
    directory sync, data durable only up to the last f(data)sync) meta.json is the one this commit wrote and every
    file of every segment it references is present and completely synced.

With --lock (C18 adjunct) only the writer-lock contract of MmapDirectory is checked: the lock is an flock() on
`.tantivy-writer.lock` / `.tantivy-meta.lock`; flock exclusion is a property of the inode, so the path has to keep
naming the same inode for as long as the directory is in use: the lock files are never unlinked or renamed (a
release that unlinks the file lets a party that already opened it and a party that re-creates it both hold "the"
lock). The outcomes of the writer-lock lifecycle that mmapcheck runs at its end (new writer after
wait_merging_threads, second writer refused with a lock error, still refused after rollback, released by drop,
released after a failed construction) are read from its marker.

usage: mmap_trace_check.py [--lock] <trace> <index dir>      exit 0 ok / 1 violation (prints VIOLATION-DETAIL lines)
"""
import json
import re
import sys

LINE = re.compile(r"^(\d+)\s+(\w+)\((.*)\)\s+=\s+(-?\d+)(.*)$")
UNFINISHED = re.compile(r"^(\d+)\s+(\w+)\((.*) <unfinished \.\.\.>$")
RESUMED = re.compile(r"^(\d+)\s+<\.\.\. (\w+) resumed>(.*)$")
FD = re.compile(r"^(\d+)<([^>]*)>")


def parse(path):
    pending = {}
    out = []
    for raw in open(path, errors="replace"):
        raw = raw.rstrip("\n")
        m = UNFINISHED.match(raw)
        if m:
            pending[m.group(1)] = (m.group(2), m.group(3))
            continue
        m = RESUMED.match(raw)
        if m:
            pid = m.group(1)
            if pid in pending:
                name, args = pending.pop(pid)
                raw = "%s %s(%s%s" % (pid, name, args, m.group(3).lstrip())
            else:
                continue
        m = LINE.match(raw)
        if not m:
            continue
        out.append((m.group(1), m.group(2), m.group(3), int(m.group(4))))
    return out


def strings(args):
    return re.findall(r'"((?:[^"\\]|\\.)*)"', args)


def unescape(s):
    return bytes(s, "latin-1").decode("unicode_escape").encode("latin-1")


LOCK_FILES = (".tantivy-writer.lock", ".tantivy-meta.lock")
LIFECYCLE = ["a writer can be created after wait_merging_threads()", "a second writer on another Index handle is refused with a lock error",
             "a second writer is still refused after rollback()", "a writer can be created after the previous one was dropped",
             "a writer with an invalid memory budget is refused", "a writer can be created after a failed construction"]


def lock_main(trace, root):
    ev = parse(trace)
    problems = []
    stats = {"syscalls": len(ev), "flock_acquired": 0, "flock_refused": 0, "lock_file_opens": 0, "lifecycle_flags": ""}
    lock_paths = [root + "/" + n for n in LOCK_FILES]
    for (pid, name, args, ret) in ev:
        if name in ("statx", "newfstatat", "stat") and "/TVMARK/api_end/lock/" in args:
            flags = args.split("/TVMARK/api_end/lock/")[1].split('"')[0]
            stats["lifecycle_flags"] = flags
            for i, c in enumerate(flags):
                if c != "1":
                    problems.append("writer-lock lifecycle on MmapDirectory: NOT (%s)" % LIFECYCLE[i])
        elif name == "flock" and any("<" + lp + ">" in args for lp in lock_paths):
            if "LOCK_EX" in args:
                if ret == 0:
                    stats["flock_acquired"] += 1
                else:
                    stats["flock_refused"] += 1
        elif name == "openat" and ret >= 0 and any(lp in args for lp in lock_paths):
            stats["lock_file_opens"] += 1
        elif name in ("unlink", "unlinkat", "rename", "renameat", "renameat2") and ret == 0:
            for lp in lock_paths:
                if lp in strings(args):
                    problems.append("%s(%s): a lock file is removed or replaced while the directory is in use (flock "
                                    "exclusion is tied to the inode)" % (name, lp[len(root) + 1:]))
    if not stats["lifecycle_flags"]:
        problems.append("no writer-lock lifecycle marker in the trace")
    if stats["flock_acquired"] == 0:
        problems.append("no successful exclusive flock() on a lock file: the lock model of the simulated directory does not describe MmapDirectory")
    for p in problems[:10]:
        print("VIOLATION-DETAIL property=C18 oracle=mmap_directory_lock_contract %s" % p)
    print(json.dumps({"stats": stats, "problems": len(problems)}))
    sys.exit(1 if problems else 0)


def main():
    if sys.argv[1] == "--lock":
        lock_main(sys.argv[2], sys.argv[3].rstrip("/"))
    trace, root = sys.argv[1], sys.argv[2].rstrip("/")
    ev = parse(trace)
    problems = []
    # ---- storage state machine at syscall level
    files = {}        # path -> inode id (visible namespace)
    inodes = {}       # id -> {"len":, "synced":, "content": bytearray or None}
    durable_ns = {}   # path -> inode id
    pending_ns = []   # ("link", path, ino) / ("unlink", path)
    next_ino = [0]
    open_calls = {}   # pid -> stack of (kind, path, start index)
    window = {}       # pid -> list of events since the begin marker
    stats = {"open_write": 0, "terminate": 0, "atomic_write": 0, "sync_directory": 0, "delete": 0, "commits": 0,
             "syscalls": len(ev)}
    last_meta_ino = [None]

    def rel(p):
        return p[len(root) + 1:] if p.startswith(root + "/") else None

    def new_inode():
        next_ino[0] += 1
        inodes[next_ino[0]] = {"len": 0, "synced": 0, "content": bytearray()}
        return next_ino[0]

    def check_call(kind, path, evs, pid):
        stats[kind] = stats.get(kind, 0) + 1
        full = root + "/" + path
        if kind == "open_write":
            ok = any(n == "openat" and full in a and "O_CREAT" in a and "O_EXCL" in a and r >= 0 for (n, a, r) in evs)
            if not ok:
                problems.append("open_write(%s): no successful exclusive create of the file" % path)
        elif kind == "terminate":
            last_write = max([i for i, (n, a, r) in enumerate(evs) if n in ("write", "pwrite64") and "<" + full + ">" in a] + [-1])
            syncs = [i for i, (n, a, r) in enumerate(evs) if n in ("fsync", "fdatasync") and "<" + full + ">" in a and r == 0]
            if not syncs or max(syncs) < last_write:
                problems.append("terminate(%s): the file is not f(data)sync'ed after its last write" % path)
        elif kind == "atomic_write":
            ren = [(i, strings(a)) for i, (n, a, r) in enumerate(evs) if n in ("rename", "renameat", "renameat2") and r == 0]
            ren = [(i, s) for i, s in ren if len(s) >= 2 and s[-1] == full]
            if not ren:
                problems.append("atomic_write(%s): no rename onto the target" % path)
                return
            i_ren, s = ren[-1]
            tmp = s[0]
            writes = [i for i, (n, a, r) in enumerate(evs) if n in ("write", "pwrite64") and "<" + tmp + ">" in a]
            syncs = [i for i, (n, a, r) in enumerate(evs) if n in ("fsync", "fdatasync") and "<" + tmp + ">" in a and r == 0]
            if not syncs:
                problems.append("atomic_write(%s): the temporary file is never synced" % path)
            elif writes and max(syncs) < max(writes):
                problems.append("atomic_write(%s): the temporary file is written after its last sync" % path)
            elif max(syncs) > i_ren:
                problems.append("atomic_write(%s): the temporary file is renamed before it is synced" % path)
        elif kind == "sync_directory":
            ok = any(n in ("fsync", "fdatasync") and "<" + root + ">" in a and r == 0 for (n, a, r) in evs)
            if not ok:
                problems.append("sync_directory(): no f(data)sync on the directory")
        elif kind == "delete":
            # the call may legitimately find nothing to delete (ENOENT)
            ok = any(n in ("unlink", "unlinkat") and full in a for (n, a, r) in evs)
            if not ok:
                problems.append("delete(%s): no unlink of the file" % path)

    def minimal_image():
        return {p: inodes[i] for p, i in durable_ns.items()}

    def check_commit(n):
        stats["commits"] += 1
        img = minimal_image()
        if "meta.json" not in img:
            problems.append("commit %s returned: meta.json is not durably linked" % n)
            return
        if durable_ns["meta.json"] != last_meta_ino[0]:
            problems.append("commit %s returned: the durable meta.json is not the one this commit wrote (rename not followed by a directory sync)" % n)
            return
        meta = img["meta.json"]
        if meta["synced"] < meta["len"]:
            problems.append("commit %s returned: meta.json content not synced" % n)
            return
        try:
            j = json.loads(bytes(meta["content"][:meta["len"]]).decode())
        except Exception as e:  # noqa
            problems.append("commit %s: cannot parse the traced meta.json (%s)" % (n, e))
            return
        for seg in j.get("segments", []):
            sid = seg["segment_id"].replace("-", "")
            names = [sid + ext for ext in (".idx", ".pos", ".term", ".store", ".fast", ".fieldnorm")]
            d = seg.get("deletes")
            if d:
                names.append("%s.%d.del" % (sid, d["opstamp"]))
            for nm in names:
                if nm not in img:
                    problems.append("commit %s returned: %s is referenced by meta.json but its name is not durable" % (n, nm))
                elif img[nm]["synced"] < img[nm]["len"] or img[nm]["len"] == 0:
                    problems.append("commit %s returned: %s is referenced by meta.json but only %d of %d bytes are synced" % (
                        n, nm, img[nm]["synced"], img[nm]["len"]))

    for (pid, name, args, ret) in ev:
        if name in ("statx", "newfstatat", "stat") and "/TVMARK/" in args:
            s = [x for x in strings(args) if x.startswith("/TVMARK/")][0][len("/TVMARK/"):]
            kind_phase, _, path = s.partition("/")
            path = path.replace("%2F", "/")
            kind, _, phase = kind_phase.rpartition("_")
            if kind == "api":
                if phase == "end" and path.startswith("commit/"):
                    check_commit(path.split("/")[1])
                continue
            if phase == "begin":
                open_calls.setdefault(pid, []).append((kind, path))
                window[pid] = []
            elif phase == "end":
                st = open_calls.get(pid, [])
                if st and st[-1] == (kind, path):
                    st.pop()
                    check_call(kind, path, window.get(pid, []), pid)
            continue
        if pid in window:
            window[pid].append((name, args, ret))
        # ---- state machine
        if name == "openat" and ret >= 0:
            s = strings(args)
            if s:
                r = rel(s[0])
                if r is not None and "O_CREAT" in args:
                    if r not in files:
                        ino = new_inode()
                        files[r] = ino
                        pending_ns.append(("link", r, ino))
        elif name in ("write", "pwrite64") and ret > 0:
            m = FD.match(args)
            if m:
                r = rel(m.group(2))
                if r in files:
                    ino = inodes[files[r]]
                    s = strings(args)
                    ino["len"] += ret
                    if s and not args.rstrip().endswith('"...') and "\"..., " not in args:
                        ino["content"] += unescape(s[0])
        elif name in ("fsync", "fdatasync") and ret == 0:
            m = FD.match(args)
            if m:
                p = m.group(2)
                if p == root:
                    for op in pending_ns:
                        if op[0] == "link":
                            durable_ns[op[1]] = op[2]
                        else:
                            durable_ns.pop(op[1], None)
                    del pending_ns[:]
                else:
                    r = rel(p)
                    if r in files:
                        inodes[files[r]]["synced"] = inodes[files[r]]["len"]
        elif name in ("rename", "renameat", "renameat2") and ret == 0:
            s = strings(args)
            if len(s) >= 2:
                a, b = rel(s[0]), rel(s[-1])
                if a in files and b is not None:
                    ino = files.pop(a)
                    files[b] = ino
                    pending_ns.append(("unlink", a))
                    pending_ns.append(("link", b, ino))
                    if b == "meta.json":
                        last_meta_ino[0] = ino
        elif name in ("unlink", "unlinkat") and ret == 0:
            s = strings(args)
            if s:
                r = rel(s[0])
                if r in files:
                    files.pop(r)
                    pending_ns.append(("unlink", r))
    for p in problems[:10]:
        print("VIOLATION-DETAIL property=C01 oracle=mmap_directory_storage_contract %s" % p)
    print(json.dumps({"stats": stats, "problems": len(problems)}))
    sys.exit(1 if problems else 0)


if __name__ == "__main__":
    main()
