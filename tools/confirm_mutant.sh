#!/bin/bash
# confirm_mutant.sh <mutant_dir> <name>: in a scratch worktree of /repo HEAD (outside /repo and /verif):
#  patch applies, workspace suite passes with it, demo fails with it and passes without it.
# Result: /tmp/confirm/results/<name>.txt
set -u
MUT=$1; NAME=$2
WT=/tmp/confirm/wt
RES=/tmp/confirm/results/$NAME.txt
mkdir -p /tmp/confirm/results
exec > "$RES" 2>&1
cd $WT || exit 9
git reset -q --hard; git clean -fdq tests/ 2>/dev/null; git checkout -q --detach $(git -C /repo rev-parse HEAD)
echo "HEAD $(git rev-parse --short HEAD)"
if ! git apply --check "$MUT/patch.diff"; then
  if git apply --3way "$MUT/patch.diff"; then echo "APPLY 3way-ok"; else echo "APPLY FAIL"; git reset -q --hard; exit 1; fi
else
  git apply "$MUT/patch.diff"; echo "APPLY ok"
fi
git diff > /tmp/confirm/results/$NAME.rebased.diff
DEMO=$(python3 -c "import json,sys;print(json.load(open('$MUT/meta.json')).get('demo_place','tests/demo_$NAME.rs'))")
cp "$MUT/demo.rs" "$WT/$DEMO"
TEST=$(basename "$DEMO" .rs)
echo "== suite with patch"
cargo nextest run --workspace --no-fail-fast --test-threads 8 --offline -E "not binary($TEST)" 2>&1 | tail -4
echo "SUITE_EXIT ${PIPESTATUS[0]}"
echo "== demo with patch (expect fail)"
timeout 400 cargo test --offline -j 8 --test "$TEST" 2>&1 | tail -8
echo "DEMO_WITH_EXIT ${PIPESTATUS[0]}"
git reset -q --hard
echo "== demo without patch (expect pass)"
timeout 400 cargo test --offline -j 8 --test "$TEST" 2>&1 | tail -4
echo "DEMO_WITHOUT_EXIT ${PIPESTATUS[0]}"
rm -f "$WT/$DEMO"
