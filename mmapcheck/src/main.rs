//! Adjunct of the C01 check: drives the REAL `MmapDirectory` through tantivy's indexing API and
//! brackets every `Directory` call with marker syscalls, so that `tools/mmap_trace_check.py` can
//! verify -- on the `strace` of this process -- that MmapDirectory gives the durability the
//! simulated disk assumes: `terminate` = data synced, `atomic_write` = synced temp file renamed
//! over the target, `sync_directory` = fsync of the directory, `open_write` = exclusive create.
//!
//! usage: mmapcheck <dir> <seed>
use std::io::{self, Write};
use std::path::{Path, PathBuf};
use std::sync::Arc;
use tantivy::directory::error::{DeleteError, LockError, OpenReadError, OpenWriteError};
use tantivy::directory::{
    AntiCallToken, Directory, DirectoryLock, FileHandle, Lock, MmapDirectory, TerminatingWrite,
    WatchCallback, WatchHandle, WritePtr,
};
use tantivy::schema::{Schema, FAST, INDEXED, STORED, TEXT};
use tantivy::{doc, Index, IndexSettings, IndexWriter, Term};

/// A marker the tracer sees: access("/TVMARK/<text>") always fails with ENOENT.
fn mark(text: &str) {
    let _ = std::fs::metadata(format!("/TVMARK/{text}"));
}

fn enc(p: &Path) -> String {
    p.to_string_lossy().replace('/', "%2F")
}

#[derive(Clone, Debug)]
struct MarkDir(MmapDirectory);

struct MarkWriter {
    inner: Box<dyn TerminatingWrite + Send + Sync>,
    path: PathBuf,
}
impl Write for MarkWriter {
    fn write(&mut self, buf: &[u8]) -> io::Result<usize> {
        self.inner.write(buf)
    }
    fn flush(&mut self) -> io::Result<()> {
        self.inner.flush()
    }
}
impl TerminatingWrite for MarkWriter {
    fn terminate_ref(&mut self, t: AntiCallToken) -> io::Result<()> {
        mark(&format!("terminate_begin/{}", enc(&self.path)));
        let r = self.inner.terminate_ref(t);
        mark(&format!("terminate_end/{}", enc(&self.path)));
        r
    }
}

impl Directory for MarkDir {
    fn get_file_handle(&self, path: &Path) -> Result<Arc<dyn FileHandle>, OpenReadError> {
        self.0.get_file_handle(path)
    }
    fn delete(&self, path: &Path) -> Result<(), DeleteError> {
        mark(&format!("delete_begin/{}", enc(path)));
        let r = self.0.delete(path);
        mark(&format!("delete_end/{}", enc(path)));
        r
    }
    fn exists(&self, path: &Path) -> Result<bool, OpenReadError> {
        self.0.exists(path)
    }
    fn open_write(&self, path: &Path) -> Result<WritePtr, OpenWriteError> {
        mark(&format!("open_write_begin/{}", enc(path)));
        let r = self.0.open_write(path);
        mark(&format!("open_write_end/{}", enc(path)));
        let w = r?;
        let inner = w.into_inner().map_err(|_| ()).expect("empty buffer");
        Ok(io::BufWriter::new(Box::new(MarkWriter { inner, path: path.to_path_buf() })))
    }
    fn atomic_read(&self, path: &Path) -> Result<Vec<u8>, OpenReadError> {
        self.0.atomic_read(path)
    }
    fn atomic_write(&self, path: &Path, data: &[u8]) -> io::Result<()> {
        mark(&format!("atomic_write_begin/{}", enc(path)));
        let r = self.0.atomic_write(path, data);
        mark(&format!("atomic_write_end/{}", enc(path)));
        r
    }
    fn sync_directory(&self) -> io::Result<()> {
        mark("sync_directory_begin/.");
        let r = self.0.sync_directory();
        mark("sync_directory_end/.");
        r
    }
    fn acquire_lock(&self, lock: &Lock) -> Result<DirectoryLock, LockError> {
        self.0.acquire_lock(lock)
    }
    fn watch(&self, cb: WatchCallback) -> tantivy::Result<WatchHandle> {
        self.0.watch(cb)
    }
}

fn main() -> tantivy::Result<()> {
    let args: Vec<String> = std::env::args().collect();
    let dir = PathBuf::from(&args[1]);
    let seed: u64 = args[2].parse().unwrap();
    std::fs::create_dir_all(&dir)?;
    let mut x = seed.wrapping_mul(0x9E3779B97F4A7C15) | 1;
    let mut rnd = move |n: u64| {
        x ^= x << 13;
        x ^= x >> 7;
        x ^= x << 17;
        x % n
    };
    let mut sb = Schema::builder();
    let id = sb.add_u64_field("id", INDEXED | STORED | FAST);
    let body = sb.add_text_field("body", TEXT | STORED);
    let schema = sb.build();
    let mmap = MmapDirectory::open(&dir).map_err(|e| tantivy::TantivyError::SystemError(e.to_string()))?;
    mark("api_begin/create");
    let index = Index::create(MarkDir(mmap), schema, IndexSettings::default())?;
    mark("api_end/create");
    let mut w: IndexWriter = index.writer_with_num_threads(1, 15_000_000)?;
    // no background merges: every meta.json replacement then happens inside a bracketed API call of this thread
    w.set_merge_policy(Box::new(tantivy::merge_policy::NoMergePolicy));
    let mut next = 1u64;
    let mut commits = 0;
    for step in 0..(6 + rnd(10)) {
        match rnd(10) {
            0..=4 => {
                for _ in 0..(1 + rnd(4)) {
                    w.add_document(doc!(id => next, body => format!("doc number {next} of step {step}")))?;
                    next += 1;
                }
            }
            5 => {
                w.delete_term(Term::from_field_u64(id, 1 + rnd(next)));
            }
            6 | 7 => {
                mark(&format!("api_begin/commit/{commits}"));
                w.commit()?;
                mark(&format!("api_end/commit/{commits}"));
                commits += 1;
            }
            8 => {
                let ids = index.searchable_segment_ids()?;
                if ids.len() >= 2 {
                    mark("api_begin/merge");
                    let _ = w.merge(&ids).wait();
                    mark("api_end/merge");
                }
            }
            _ => {
                mark("api_begin/gc");
                let _ = w.garbage_collect_files().wait();
                mark("api_end/gc");
            }
        }
    }
    mark(&format!("api_begin/commit/{commits}"));
    w.commit()?;
    mark(&format!("api_end/commit/{commits}"));
    w.wait_merging_threads()?;
    mark("api_end/all");
    // writer-lock lifecycle on the real MmapDirectory (C18 adjunct): the outcomes go into the trace as a marker
    let mut flags = vec![];
    let index2 = Index::open(MarkDir(
        MmapDirectory::open(&dir).map_err(|e| tantivy::TantivyError::SystemError(e.to_string()))?,
    ))?;
    let w2: Result<IndexWriter, _> = index.writer_with_num_threads(1, 15_000_000);
    flags.push(w2.is_ok()); // created after wait_merging_threads consumed the first writer
    let second: Result<IndexWriter, _> = index2.writer_with_num_threads(1, 15_000_000);
    flags.push(matches!(second, Err(tantivy::TantivyError::LockFailure(..)))); // refused with a lock error while w2 is alive
    drop(second);
    let mut w2 = w2?;
    w2.add_document(doc!(id => next, body => "lock lifecycle"))?;
    w2.rollback()?;
    let second: Result<IndexWriter, _> = index2.writer_with_num_threads(1, 15_000_000);
    flags.push(matches!(second, Err(tantivy::TantivyError::LockFailure(..)))); // still refused after rollback
    drop(second);
    drop(w2);
    let w3: Result<IndexWriter, _> = index2.writer_with_num_threads(1, 15_000_000);
    flags.push(w3.is_ok()); // released by drop
    let bad: Result<IndexWriter, _> = index.writer_with_num_threads(1, 1_000);
    flags.push(bad.is_err());
    drop(w3);
    let w4: Result<IndexWriter, _> = index.writer_with_num_threads(1, 15_000_000);
    flags.push(w4.is_ok());
    drop(w4);
    mark(&format!(
        "api_end/lock/{}",
        flags.iter().map(|b| if *b { "1" } else { "0" }).collect::<String>()
    ));
    Ok(())
}
