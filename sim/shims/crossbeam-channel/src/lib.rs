//! MPMC channel on shuttle Mutex+Condvar with the subset of the crossbeam-channel API tantivy uses.
use shuttle::sync::{Arc, Condvar, Mutex};
use std::collections::VecDeque;
use std::fmt;
use std::time::{Duration, Instant};

struct State<T> { q: VecDeque<T>, cap: Option<usize>, senders: usize, receivers: usize }
struct Chan<T> { st: Mutex<State<T>>, not_empty: Condvar, not_full: Condvar }

pub struct Sender<T> { ch: Arc<Chan<T>> }
pub struct Receiver<T> { ch: Arc<Chan<T>> }

#[derive(PartialEq, Eq, Clone, Copy)]
pub struct SendError<T>(pub T);
impl<T> fmt::Debug for SendError<T> { fn fmt(&self, f: &mut fmt::Formatter<'_>) -> fmt::Result { f.write_str("SendError(..)") } }
impl<T> fmt::Display for SendError<T> { fn fmt(&self, f: &mut fmt::Formatter<'_>) -> fmt::Result { f.write_str("sending on a disconnected channel") } }
impl<T> std::error::Error for SendError<T> {}
#[derive(PartialEq, Eq, Clone, Copy, Debug)]
pub struct RecvError;
impl fmt::Display for RecvError { fn fmt(&self, f: &mut fmt::Formatter<'_>) -> fmt::Result { f.write_str("receiving on an empty and disconnected channel") } }
impl std::error::Error for RecvError {}
#[derive(PartialEq, Eq, Clone, Copy, Debug)]
pub enum TryRecvError { Empty, Disconnected }

fn mk<T>(cap: Option<usize>) -> (Sender<T>, Receiver<T>) {
    let ch = Arc::new(Chan { st: Mutex::new(State { q: VecDeque::new(), cap, senders: 1, receivers: 1 }), not_empty: Condvar::new(), not_full: Condvar::new() });
    (Sender { ch: ch.clone() }, Receiver { ch })
}
thread_local! {
    /// Simulation knob: upper bound applied to the capacity of every bounded channel created from now on
    /// (tantivy's indexing pipeline holds 10 000 batches; a small bound makes producers block).
    static CAPACITY_CAP: std::cell::Cell<Option<usize>> = const { std::cell::Cell::new(None) };
}
pub fn set_capacity_cap(cap: Option<usize>) { CAPACITY_CAP.with(|c| c.set(cap)); }
pub fn bounded<T>(cap: usize) -> (Sender<T>, Receiver<T>) {
    let cap = match CAPACITY_CAP.with(|c| c.get()) { Some(k) => cap.min(k), None => cap };
    mk(Some(cap.max(1)))
}
pub fn unbounded<T>() -> (Sender<T>, Receiver<T>) { mk(None) }
pub fn tick(_d: Duration) -> Receiver<Instant> { unimplemented!("tick is not modelled in the simulator") }

impl<T> Sender<T> {
    pub fn send(&self, t: T) -> Result<(), SendError<T>> {
        let mut st = self.ch.st.lock().unwrap();
        loop {
            if st.receivers == 0 { return Err(SendError(t)); }
            if st.cap.map_or(true, |c| st.q.len() < c) { break; }
            st = self.ch.not_full.wait(st).unwrap();
        }
        st.q.push_back(t);
        drop(st);
        self.ch.not_empty.notify_one();
        Ok(())
    }
}
impl<T> Clone for Sender<T> { fn clone(&self) -> Self { self.ch.st.lock().unwrap().senders += 1; Sender { ch: self.ch.clone() } } }
impl<T> Drop for Sender<T> { fn drop(&mut self) { let mut st = self.ch.st.lock().unwrap(); st.senders -= 1; let z = st.senders == 0; drop(st); if z { self.ch.not_empty.notify_all(); } } }
impl<T> Receiver<T> {
    pub fn recv(&self) -> Result<T, RecvError> {
        let mut st = self.ch.st.lock().unwrap();
        loop {
            if let Some(t) = st.q.pop_front() { drop(st); self.ch.not_full.notify_one(); return Ok(t); }
            if st.senders == 0 { return Err(RecvError); }
            st = self.ch.not_empty.wait(st).unwrap();
        }
    }
    pub fn try_recv(&self) -> Result<T, TryRecvError> {
        let mut st = self.ch.st.lock().unwrap();
        if let Some(t) = st.q.pop_front() { drop(st); self.ch.not_full.notify_one(); return Ok(t); }
        if st.senders == 0 { Err(TryRecvError::Disconnected) } else { Err(TryRecvError::Empty) }
    }
    pub fn iter(&self) -> Iter<'_, T> { Iter { r: self } }
    pub fn try_iter(&self) -> TryIter<'_, T> { TryIter { r: self } }
}
impl<T> Clone for Receiver<T> { fn clone(&self) -> Self { self.ch.st.lock().unwrap().receivers += 1; Receiver { ch: self.ch.clone() } } }
impl<T> Drop for Receiver<T> { fn drop(&mut self) { let mut st = self.ch.st.lock().unwrap(); st.receivers -= 1; let z = st.receivers == 0; if z { st.q.clear(); } drop(st); if z { self.ch.not_full.notify_all(); } } }
pub struct Iter<'a, T> { r: &'a Receiver<T> }
impl<T> Iterator for Iter<'_, T> { type Item = T; fn next(&mut self) -> Option<T> { self.r.recv().ok() } }
pub struct TryIter<'a, T> { r: &'a Receiver<T> }
impl<T> Iterator for TryIter<'_, T> { type Item = T; fn next(&mut self) -> Option<T> { self.r.try_recv().ok() } }
pub struct IntoIter<T> { r: Receiver<T> }
impl<T> Iterator for IntoIter<T> { type Item = T; fn next(&mut self) -> Option<T> { self.r.recv().ok() } }
impl<T> IntoIterator for Receiver<T> { type Item = T; type IntoIter = IntoIter<T>; fn into_iter(self) -> IntoIter<T> { IntoIter { r: self } } }
impl<'a, T> IntoIterator for &'a Receiver<T> { type Item = T; type IntoIter = Iter<'a, T>; fn into_iter(self) -> Iter<'a, T> { self.iter() } }
