//! Thread pool on shuttle threads with the subset of the rayon API tantivy uses.
use shuttle::sync::{Arc, Condvar, Mutex};
use std::any::Any;
use std::collections::VecDeque;
use std::fmt;
use std::marker::PhantomData;

type Job = Box<dyn FnOnce() + Send + 'static>;
type PanicHandler = Arc<dyn Fn(Box<dyn Any + Send>) + Send + Sync + 'static>;
struct Q { jobs: VecDeque<Job>, closed: bool }
struct Shared { q: Mutex<Q>, cv: Condvar }

pub struct ThreadPool { shared: Arc<Shared>, n: usize }
#[derive(Debug)]
pub struct ThreadPoolBuildError(String);
impl fmt::Display for ThreadPoolBuildError { fn fmt(&self, f: &mut fmt::Formatter<'_>) -> fmt::Result { f.write_str(&self.0) } }
impl std::error::Error for ThreadPoolBuildError {}

#[derive(Default)]
pub struct ThreadPoolBuilder { n: usize, name: Option<Box<dyn FnMut(usize) -> String>>, ph: Option<PanicHandler> }
impl ThreadPoolBuilder {
    pub fn new() -> Self { Self::default() }
    pub fn num_threads(mut self, n: usize) -> Self { self.n = n; self }
    pub fn thread_name<F: FnMut(usize) -> String + 'static>(mut self, f: F) -> Self { self.name = Some(Box::new(f)); self }
    pub fn panic_handler<H: Fn(Box<dyn Any + Send>) + Send + Sync + 'static>(mut self, h: H) -> Self { self.ph = Some(Arc::new(h)); self }
    pub fn build(mut self) -> Result<ThreadPool, ThreadPoolBuildError> {
        let n = if self.n == 0 { 1 } else { self.n };
        let shared = Arc::new(Shared { q: Mutex::new(Q { jobs: VecDeque::new(), closed: false }), cv: Condvar::new() });
        for i in 0..n {
            let name = self.name.as_mut().map(|f| f(i)).unwrap_or_else(|| format!("pool-{i}"));
            let sh = shared.clone();
            let ph = self.ph.clone();
            shuttle::thread::Builder::new().name(name).spawn(move || loop {
                let job = {
                    let mut q = sh.q.lock().unwrap();
                    loop {
                        if let Some(j) = q.jobs.pop_front() { break Some(j); }
                        if q.closed { break None; }
                        q = sh.cv.wait(q).unwrap();
                    }
                };
                match job {
                    None => return,
                    Some(j) => {
                        if let Err(p) = std::panic::catch_unwind(std::panic::AssertUnwindSafe(j)) {
                            match &ph { Some(h) => h(p), None => std::panic::resume_unwind(p) }
                        }
                    }
                }
            }).map_err(|e| ThreadPoolBuildError(e.to_string()))?;
        }
        Ok(ThreadPool { shared, n })
    }
}
impl ThreadPool {
    pub fn spawn<F: FnOnce() + Send + 'static>(&self, f: F) {
        self.shared.q.lock().unwrap().jobs.push_back(Box::new(f));
        self.shared.cv.notify_one();
    }
    pub fn current_num_threads(&self) -> usize { self.n }
    pub fn install<R: Send, F: FnOnce() -> R + Send>(&self, f: F) -> R { f() }
    pub fn scope<'scope, R, F>(&self, f: F) -> R where F: FnOnce(&Scope<'scope>) -> R {
        // Scoped jobs run on fresh scoped shuttle threads.
        let jobs: std::cell::RefCell<Vec<Box<dyn FnOnce(&Scope<'scope>) + Send + 'scope>>> = Default::default();
        let sc = Scope { jobs: &jobs as *const _ as *const (), _p: PhantomData };
        let r = f(&sc);
        let jobs = jobs.into_inner();
        shuttle::thread::scope(|s| {
            for j in jobs { let sc2 = Scope { jobs: std::ptr::null(), _p: PhantomData }; s.spawn(move || j(&sc2)); }
        });
        r
    }
}
impl Drop for ThreadPool { fn drop(&mut self) { self.shared.q.lock().unwrap().closed = true; self.shared.cv.notify_all(); } }
impl fmt::Debug for ThreadPool { fn fmt(&self, f: &mut fmt::Formatter<'_>) -> fmt::Result { write!(f, "ThreadPool({})", self.n) } }

pub struct Scope<'scope> { jobs: *const (), _p: PhantomData<&'scope mut &'scope ()> }
unsafe impl Send for Scope<'_> {}
unsafe impl Sync for Scope<'_> {}
impl<'scope> Scope<'scope> {
    pub fn spawn<F: FnOnce(&Scope<'scope>) + Send + 'scope>(&self, f: F) {
        assert!(!self.jobs.is_null(), "nested scope spawn not modelled");
        let jobs = unsafe { &*(self.jobs as *const std::cell::RefCell<Vec<Box<dyn FnOnce(&Scope<'scope>) + Send + 'scope>>>) };
        jobs.borrow_mut().push(Box::new(f));
    }
}
