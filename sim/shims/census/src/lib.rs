//! # Census
//!
//! Census' `Inventory`  makes it possible to track a set of living items of a specific type.
//! Items are automatically removed from the `Inventory<T>` as the living item's are dropped.
//!
//! ```rust
//! use census::{Inventory, TrackedObject};
//!
//! let inventory = Inventory::new();
//!
//! //  Each object tracked needs to be registered explicitely in the Inventory.
//! //  A `TrackedObject<T>` wrapper is then returned.
//! let one = inventory.track("one".to_string());
//! let two = inventory.track("two".to_string());
//!
//! // A snapshot  of the list of living instances can be obtained...
//! // (no guarantee on their order)
//! let living_instances: Vec<TrackedObject<String>> = inventory.list();
//! assert_eq!(living_instances.len(), 2);
//! ```

use std::borrow::Borrow;
use std::fmt;
use std::ops::Deref;

use shuttle::sync::{Arc, Condvar, Mutex, MutexGuard, Weak};

use std::fmt::{Error, Formatter};

struct Items<T> {
    alive_count: usize,
    items: Vec<Weak<InnerTrackedObject<T>>>,
}

impl<T> Default for Items<T> {
    fn default() -> Self {
        Items {
            alive_count: 0,
            items: Vec::new(),
        }
    }
}

impl<T> Items<T> {
    fn record_birth(&mut self) {
        self.alive_count += 1;
    }

    fn record_death(&mut self) {
        self.alive_count -= 1;
    }

    fn len(&mut self) -> usize {
        self.alive_count()
    }

    fn list_arc(&mut self) -> Vec<TrackedObject<T>> {
        self.items
            .iter()
            .flat_map(|weak| weak.upgrade())
            .map(|v| TrackedObject { inner: v })
            .collect()
    }

    fn gc_if_needed(&mut self) {
        if !self.should_gc() {
            return;
        }
        let mut i = 0;
        while i < self.items.len() {
            let should_remove = self.items[i].strong_count() == 0;
            if should_remove {
                self.items.swap_remove(i);
            } else {
                i += 1;
            }
        }
    }

    fn alive_count(&self) -> usize {
        self.alive_count
    }

    fn should_gc(&self) -> bool {
        self.alive_count * 2 <= self.items.len()
    }
}

struct InnerInventory<T> {
    items: Mutex<Items<T>>,
    condvar: Condvar,
}

/// The `Inventory` register and keeps track of all of the objects alive.
pub struct Inventory<T> {
    inner: Arc<InnerInventory<T>>,
}

impl<T> Default for Inventory<T> {
    fn default() -> Self {
        Inventory {
            inner: Arc::new(InnerInventory {
                items: Mutex::new(Items::default()),
                condvar: Condvar::new(),
            }),
        }
    }
}

impl<T> Clone for Inventory<T> {
    fn clone(&self) -> Self {
        Inventory {
            inner: self.inner.clone(),
        }
    }
}

impl<T> Inventory<T> {
    /// Creates a new inventory.
    pub fn new() -> Inventory<T> {
        Inventory::default()
    }

    fn lock_items(&self) -> MutexGuard<Items<T>> {
        let mut guard = self.inner.items.lock().unwrap();
        guard.gc_if_needed();
        guard
    }

    /// Returns the number of tracked object.
    pub fn len(&self) -> usize {
        self.lock_items().len()
    }

    /// Takes a snapshot of the list of tracked object.
    ///
    /// Note that the list is a simple `Vec` of tracked object.
    /// As a result, it is a consistent snapshot of the
    /// list of living instance at the time of the call,
    ///
    /// Obviously, instances may have been created after the call.
    /// They will obviously not appear in the snapshot.
    ///
    /// ```rust
    /// use census::{Inventory, TrackedObject};
    ///
    /// let inventory = Inventory::new();
    ///
    /// let one = inventory.track("one".to_string());
    /// let living_instances: Vec<TrackedObject<String>> = inventory.list();
    /// let two = inventory.track("two".to_string());
    ///
    /// // our snapshot is a bit old.
    /// assert_eq!(living_instances.len(), 1);
    ///
    /// // a fresher snapshot would contain our new element.
    /// assert_eq!(inventory.list().len(), 2);
    /// ```
    ///
    /// Also, the instance in the snapshot itself
    /// are considered "living".
    ///
    /// As a result, as long as a snapshot is not dropped,
    /// all of its instances will be part of the inventory.
    ///
    /// ```rust
    /// # use census::{Inventory, TrackedObject};
    ///
    /// let inventory = Inventory::new();
    ///
    /// let one = inventory.track("one".to_string());
    /// let living_instances: Vec<TrackedObject<String>> = inventory.list();
    ///
    /// // let's drop one here
    /// drop(one);
    ///
    /// // The instance is technically still in the inventory
    /// // as our previous snapshot is extending its life...
    /// assert_eq!(inventory.list().len(), 1);
    ///
    /// // If we drop our previous snapshot however...
    /// drop(living_instances);
    ///
    /// // `one` is really untracked.
    /// assert!(inventory.list().is_empty());
    /// ```
    ///
    pub fn list(&self) -> Vec<TrackedObject<T>> {
        self.lock_items().list_arc()
    }

    /// This function blocks until there are no more items in the inventory.
    ///
    /// It is a helper calling
    /// ```ignore
    /// self.wait_until_predicate(|count| count == 0)
    /// ```
    ///
    /// Note it is very easy to misuse this function and create a deadlock.
    /// For instance, if any living TrackedObject is on the stack at the moment of the call,
    /// it will not get dropped, and the inventory cannot become empty.
    pub fn wait_until_empty(&self) {
        self.wait_until_predicate(|count| count == 0)
    }

    /// This function blocks until the number of items in the repository matches a specific
    /// predicate.
    ///
    /// See also `wait_until_empty`.
    ///
    /// Note it is very easy to misuse this function and create a deadlock.
    /// For instance, if any living TrackedObject is on the stack at the moment of the call,
    /// it will not get dropped, and the inventory cannot become empty.
    pub fn wait_until_predicate<F: Fn(usize) -> bool>(&self, predicate_on_count: F) {
        let mut count = self.lock_items();
        while !predicate_on_count(count.alive_count()) {
            count = self.inner.condvar.wait(count).unwrap();
        }
    }

    /// Starts tracking a given `T` object.
    pub fn track(&self, item: T) -> TrackedObject<T> {
        let item_arc = Arc::new(InnerTrackedObject {
            census: self.clone(),
            item,
        });
        let item_weak = Arc::downgrade(&item_arc);
        let mut items_lock = self.lock_items();
        items_lock.items.push(item_weak);
        items_lock.record_birth();
        self.inner.condvar.notify_all();
        TrackedObject { inner: item_arc }
    }
}

/// Your tracked object.
///
/// A tracked object contains reference counting logic and an
/// `Arc` to your object. It is cloneable but calling clone will
/// not clone your internal object.
///
/// Your object cannot be mutated. You can borrow it using
/// the `Deref` interface.
#[derive(Clone)]
pub struct TrackedObject<T> {
    inner: Arc<InnerTrackedObject<T>>,
}

struct InnerTrackedObject<T> {
    census: Inventory<T>,
    item: T,
}

impl<T: fmt::Debug> fmt::Debug for TrackedObject<T> {
    fn fmt(&self, f: &mut Formatter<'_>) -> Result<(), Error> {
        write!(f, "Tracked({:?})", self.inner.item)
    }
}

impl<T> TrackedObject<T> {
    /// Creates a new object from an existing one.
    ///
    /// The new object will be registered
    /// in your original object's inventory.
    ///
    /// ```rust
    /// use census::{Inventory, TrackedObject};
    ///
    /// let inventory = Inventory::new();
    ///
    /// let seven = inventory.track(7);
    /// let fourteen = seven.map(|i| i * 2);
    /// assert_eq!(*fourteen, 14);
    ///
    /// let living_instances = inventory.list();
    /// assert_eq!(living_instances.len(), 2);
    /// ```
    pub fn map<F>(&self, f: F) -> TrackedObject<T>
    where
        F: FnOnce(&T) -> T,
    {
        let t = f(self);
        self.inner.census.track(t)
    }
}

impl<T> Drop for InnerTrackedObject<T> {
    fn drop(&mut self) {
        let mut lock = self.census.lock_items();
        lock.record_death();
        self.census.inner.condvar.notify_all();
    }
}

impl<T> Deref for TrackedObject<T> {
    type Target = T;

    fn deref(&self) -> &T {
        &self.inner.item
    }
}

impl<T> AsRef<T> for TrackedObject<T> {
    fn as_ref(&self) -> &T {
        &self.inner.item
    }
}

impl<T> Borrow<T> for TrackedObject<T> {
    fn borrow(&self) -> &T {
        &self.inner.item
    }
}

#[cfg(test)]
mod tests {

    use super::Inventory;
    use std::sync::mpsc::channel;
    use std::sync::{Arc, Barrier};
    use std::thread;

    #[test]
    fn test_census_map() {
        let census = Inventory::new();
        let a = census.track(1);
        let _b = a.map(|v| v * 7);
        assert_eq!(census.len(), 2);
        assert_eq!(
            census.list().into_iter().map(|m| *m).collect::<Vec<_>>(),
            vec![1, 7]
        );
    }

    #[test]
    fn test_census() {
        let census = Inventory::new();
        let _a = census.track(1);
        let _b = census.track(3);
        assert_eq!(census.len(), 2,);
        assert_eq!(
            census.list().into_iter().map(|m| *m).collect::<Vec<_>>(),
            vec![1, 3]
        );
    }

    #[test]
    fn test_census_2() {
        let census = Inventory::new();
        {
            let _a = census.track(1);
            let _b = census.track(3);
            // dropping both here
        }
        assert_eq!(census.len(), 0);
        assert!(census.list().is_empty());
    }

    #[test]
    fn test_census_3() {
        let census = Inventory::new();
        let a = census.track(1);
        let _a2 = a.clone();
        drop(a);
        assert_eq!(census.len(), 1);
        assert_eq!(
            census.list().into_iter().map(|m| *m).collect::<Vec<_>>(),
            vec![1]
        );
    }

    #[test]
    fn test_census_list_extends_life() {
        let census = Inventory::new();
        let a = census.track(1);
        let living = census.list();
        assert_eq!(living.len(), 1);
        drop(a);
        let living_2 = census.list();
        assert_eq!(living_2.len(), 1);
        drop(living_2);
        drop(living);
        assert_eq!(census.len(), 0);
        assert!(census.list().is_empty());
    }

    #[test]
    fn test_census_race_condition() {
        let census = Inventory::new();
        let census_clone = census.clone();
        thread::spawn(move || {
            for _ in 0..1_000 {
                let _a = census_clone.track(1);
            }
        });
        for i in 0..10_000 {
            println!("i {}", i);
            census.list();
        }
    }

    #[test]
    fn test_census_concurrent_drop() {
        let census = Inventory::new();
        let mut senders = Vec::new();
        let mut handles = Vec::new();
        let barrier = Arc::new(Barrier::new(2));
        for _ in 0..2 {
            let (send, recv) = channel();
            let barrier = barrier.clone();
            handles.push(thread::spawn(move || {
                for obj in recv {
                    barrier.wait();
                    drop(obj);
                }
            }));
            senders.push(send);
        }
        for i in 0..50_000 {
            let tracked = census.track(i);
            for send in &senders {
                send.send(tracked.clone()).unwrap();
            }
        }
        drop(senders);
        for handle in handles {
            handle.join().unwrap();
        }
        assert_eq!(census.len(), 0);
    }

    fn test_census_changes_iter_util(el: usize) {
        let census = Inventory::new();
        for i in 0..el {
            let tracked = census.track(i);
            thread::spawn(move || {
                let _tracked = tracked;
            });
        }
        census.wait_until_empty();
        assert_eq!(census.len(), 0);
        assert!(census.list().is_empty());
    }

    #[test]
    fn test_census_changes_iter_many() {
        for i in 1..200 {
            test_census_changes_iter_util(i);
        }
    }
}
