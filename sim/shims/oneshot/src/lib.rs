//! oneshot channel on shuttle Mutex+Condvar (blocking recv; Future impl polls state with waker storage).
use shuttle::sync::{Arc, Condvar, Mutex};
use std::fmt;
use std::future::Future;
use std::pin::Pin;
use std::task::{Context, Poll, Waker};
struct St<T> { v: Option<T>, tx_gone: bool, rx_gone: bool, waker: Option<Waker> }
struct Ch<T> { st: Mutex<St<T>>, cv: Condvar }
pub struct Sender<T> { ch: Arc<Ch<T>>, sent: bool }
pub struct Receiver<T> { ch: Arc<Ch<T>> }
pub struct SendError<T>(T);
impl<T> SendError<T> { pub fn into_inner(self) -> T { self.0 } }
impl<T> fmt::Debug for SendError<T> { fn fmt(&self, f: &mut fmt::Formatter<'_>) -> fmt::Result { f.write_str("SendError") } }
#[derive(Debug, PartialEq, Eq, Clone, Copy)]
pub struct RecvError;
impl fmt::Display for RecvError { fn fmt(&self, f: &mut fmt::Formatter<'_>) -> fmt::Result { f.write_str("oneshot sender dropped") } }
impl std::error::Error for RecvError {}
pub fn channel<T>() -> (Sender<T>, Receiver<T>) {
    let ch = Arc::new(Ch { st: Mutex::new(St { v: None, tx_gone: false, rx_gone: false, waker: None }), cv: Condvar::new() });
    (Sender { ch: ch.clone(), sent: false }, Receiver { ch })
}
impl<T> Sender<T> {
    pub fn send(mut self, t: T) -> Result<(), SendError<T>> {
        let mut st = self.ch.st.lock().unwrap();
        if st.rx_gone { return Err(SendError(t)); }
        st.v = Some(t); self.sent = true;
        let w = st.waker.take(); drop(st);
        self.ch.cv.notify_all(); if let Some(w) = w { w.wake(); }
        Ok(())
    }
    pub fn is_closed(&self) -> bool { self.ch.st.lock().unwrap().rx_gone }
}
impl<T> Drop for Sender<T> { fn drop(&mut self) { let mut st = self.ch.st.lock().unwrap(); st.tx_gone = true; let w = st.waker.take(); drop(st); self.ch.cv.notify_all(); if let Some(w) = w { w.wake(); } } }
impl<T> Receiver<T> {
    pub fn recv(self) -> Result<T, RecvError> {
        let mut st = self.ch.st.lock().unwrap();
        loop {
            if let Some(v) = st.v.take() { return Ok(v); }
            if st.tx_gone { return Err(RecvError); }
            st = self.ch.cv.wait(st).unwrap();
        }
    }
}
impl<T> Drop for Receiver<T> { fn drop(&mut self) { self.ch.st.lock().unwrap().rx_gone = true; } }
impl<T> Future for Receiver<T> {
    type Output = Result<T, RecvError>;
    fn poll(self: Pin<&mut Self>, cx: &mut Context<'_>) -> Poll<Self::Output> {
        let mut st = self.ch.st.lock().unwrap();
        if let Some(v) = st.v.take() { return Poll::Ready(Ok(v)); }
        if st.tx_gone { return Poll::Ready(Err(RecvError)); }
        st.waker = Some(cx.waker().clone());
        Poll::Pending
    }
}
