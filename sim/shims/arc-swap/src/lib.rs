use shuttle::sync::Mutex;
use std::sync::Arc;
pub struct ArcSwap<T> { inner: Mutex<Arc<T>> }
pub struct Guard<T>(Arc<T>);
impl<T> std::ops::Deref for Guard<T> { type Target = Arc<T>; fn deref(&self) -> &Arc<T> { &self.0 } }
impl<T> ArcSwap<T> {
    pub fn new(v: Arc<T>) -> Self { ArcSwap { inner: Mutex::new(v) } }
    pub fn from_pointee(v: T) -> Self { Self::new(Arc::new(v)) }
    pub fn load(&self) -> Guard<T> { Guard(self.inner.lock().unwrap().clone()) }
    pub fn load_full(&self) -> Arc<T> { self.inner.lock().unwrap().clone() }
    pub fn store(&self, v: Arc<T>) { *self.inner.lock().unwrap() = v; }
    pub fn swap(&self, v: Arc<T>) -> Arc<T> { std::mem::replace(&mut *self.inner.lock().unwrap(), v) }
}
impl<T> From<Arc<T>> for ArcSwap<T> { fn from(v: Arc<T>) -> Self { Self::new(v) } }
