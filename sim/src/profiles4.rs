//! Profiles for C05, C10, C18, C20.

use crate::exec::{Exec, RunOut};
use crate::rng::Rng;
use crate::workload::*;

pub fn gen_case4(prop: &str, _seed: u64, _thorough: bool, _rng: &mut Rng) -> Case {
    panic!("HARNESS: no generator for {prop}");
}

pub fn body4(prop: &'static str, _case: &Case) -> RunOut {
    crate::profiles2::harness_fail(format!("no body for {prop}"))
}

pub fn exec_special4(_e: &mut Exec, _op: &Op) {}
