//! Profiles for C05 (readers), C10 (GC), C18 (writer lock), C20 (checksums) and the concurrent
//! producers variant of C02.

use crate::dump;
use crate::exec::{self, catch, Exec, RunOut};
use crate::model::{self, DelSpec, DocSpec, Fields};
use crate::profiles2::harness_fail;
use crate::rng::{derive, Rng};
use crate::sched::{self, draw_strategy};
use crate::simdir::{self, FailMode, FailSpec, Image, SimDir};
use crate::workload::*;
use std::collections::{BTreeMap, BTreeSet};
use std::path::{Path, PathBuf};
use std::sync::atomic::{AtomicBool, Ordering};
use std::sync::{Arc, Mutex as StdMutex};
use tantivy::directory::Directory;
use tantivy::{Index, IndexReader, ReloadPolicy, Searcher, Term};

pub fn gen_case4(prop: &str, seed: u64, thorough: bool, rng: &mut Rng) -> Case {
    match prop {
        "C05" | "C10" => {
            let mut cfg = base_cfg(rng, Profile::Readers, thorough);
            cfg.index_threads = cfg.index_threads.min(3);
            cfg.n_readers = rng.range(1, 3) as usize;
            cfg.second_index_reader = rng.chance(2, 3);
            cfg.reader_on_commit = rng.chance(1, 3);
            if prop == "C10" {
                cfg.second_index_reader = true;
            }
            cfg.strategy = draw_strategy(
                rng,
                &["reader", "reader", "segment_updater", "merge_thread", "watch", "thrd-tantivy-index"],
            );
            let mut g = Gen { rng: Rng::new(rng.next_u64()), next_uid: 1 };
            let n = rng.range(5, 22) as usize;
            let mut ops = gen_history(&mut g, &cfg, n, true, true, true);
            // sprinkle main-thread reader operations and, for C10, more GC
            let mut k = 0;
            while k < ops.len() {
                if rng.chance(1, 5) {
                    let op = match rng.below(if prop == "C10" { 5 } else { 4 }) {
                        0 => Op::Reload(rng.below(cfg.n_readers as u64) as usize),
                        1 => Op::Hold(rng.below(cfg.n_readers as u64) as usize),
                        2 => Op::Recheck,
                        3 => Op::Reload(rng.below(cfg.n_readers as u64) as usize),
                        _ => Op::Gc,
                    };
                    ops.insert(k, op);
                    k += 1;
                }
                k += 1;
            }
            ops.push(Op::Recheck);
            Case { seed, cfg, ops }
        }
        "C18" => {
            let mut cfg = base_cfg(rng, Profile::Lock, thorough);
            cfg.flock = rng.chance(3, 10);
            cfg.index_threads = rng.range(1, 2) as usize;
            cfg.second_index_reader = rng.chance(1, 2); // a second Index handle exists
            cfg.strategy = draw_strategy(rng, &["contender", "segment_updater", "thrd-tantivy-index"]);
            let mut g = Gen { rng: Rng::new(rng.next_u64()), next_uid: 1 };
            let n = rng.range(4, 16) as usize;
            let mut ops = vec![];
            for _ in 0..n {
                let second = cfg.second_index_reader && rng.chance(1, 2);
                let op = match rng.weighted(&[18, 14, 8, 6, 14, 10, 8, 6, 10, 6, 6, 6, 6]) {
                    0 => Op::CreateWriter { kind: 0, second_index: second },
                    1 => Op::DropWriter,
                    2 => Op::Rollback,
                    3 => Op::WaitMerges { threads: 1 },
                    4 => Op::NewWriterAttempt { second_index: second },
                    5 => Op::CreateWriter { kind: rng.range(1, 3) as u8, second_index: second },
                    6 => Op::RaceCreate { n: rng.range(2, 3) as usize },
                    7 => Op::KillWorker,
                    8 => Op::Add(g.doc(cfg.nkeys)),
                    9 => Op::Commit,
                    10 => Op::FaultyRollback,
                    11 => Op::WaitMergesRace,
                    _ => Op::DropRace,
                };
                ops.push(op);
            }
            ops.push(Op::DropWriter);
            ops.push(Op::CreateWriter { kind: 0, second_index: false });
            Case { seed, cfg, ops }
        }
        "C20" => {
            let mut cfg = base_cfg(rng, Profile::Damage, thorough);
            cfg.index_threads = cfg.index_threads.min(3);
            cfg.crash_samples = if thorough { 0 } else { 12 }; // 0 = exhaustive damage enumeration
            cfg.faults.short_write_pct = *rng.pick(&[0u32, 10, 30]);
            cfg.faults.eintr_pct = *rng.pick(&[0u32, 5, 15]);
            cfg.faults.seed = rng.next_u64();
            cfg.strategy = draw_strategy(rng, &crate::profiles::CLASSES_ALL);
            let mut g = Gen { rng: Rng::new(rng.next_u64()), next_uid: 1 };
            let n = rng.range(4, 16) as usize;
            let ops = gen_history(&mut g, &cfg, n, rng.chance(1, 2), false, false);
            Case { seed, cfg, ops }
        }
        "C02P" => {
            let mut cfg = base_cfg(rng, Profile::Producers, thorough);
            cfg.nkeys = rng.range(1, 3);
            cfg.strategy = draw_strategy(rng, &["producer0", "producer1", "producer2", "producer", "thrd-tantivy-index", "segment_updater"]);
            let mut g = Gen { rng: Rng::new(rng.next_u64()), next_uid: 1 };
            let mut ops = vec![];
            let rounds = rng.range(1, 3);
            for _ in 0..rounds {
                for _ in 0..rng.below(3) {
                    ops.push(Op::Add(g.doc(cfg.nkeys)));
                }
                if rng.chance(1, 3) {
                    ops.push(Op::Commit);
                }
                let np = rng.range(2, if thorough { 4 } else { 3 }) as usize;
                let mut ps = vec![];
                for _ in 0..np {
                    let m = rng.range(1, 5);
                    let mut p = vec![];
                    for _ in 0..m {
                        match rng.weighted(&[45, 30, 25]) {
                            0 => p.push(ProdOp::Add(g.doc(cfg.nkeys))),
                            1 => p.push(ProdOp::DeleteKey(rng.below(cfg.nkeys))),
                            _ => {
                                let nb = rng.range(0, 3);
                                let mut b = vec![];
                                for _ in 0..nb {
                                    if rng.chance(1, 2) {
                                        b.push(BatchOp::Add(g.doc(cfg.nkeys)));
                                    } else {
                                        b.push(BatchOp::Delete(rng.below(cfg.nkeys)));
                                    }
                                }
                                p.push(ProdOp::Batch(b));
                            }
                        }
                    }
                    ps.push(p);
                }
                ops.push(Op::Fork(ps));
            }
            Case { seed, cfg, ops }
        }
        _ => panic!("HARNESS: no generator for {prop}"),
    }
}

pub fn body4(prop: &'static str, case: &Case) -> RunOut {
    match prop {
        "C05" | "C10" => body_readers(prop, case),
        "C18" => body_lock(case),
        "C20" => body_damage(case),
        "C02P" => body_producers(case),
        _ => harness_fail(format!("no body for {prop}")),
    }
}

// ----------------------------------------------------------------------------------------------
// readers

#[derive(Clone, Debug)]
pub struct ReaderEvent {
    pub reader: usize,
    pub thread: String,
    pub reload: bool,
    pub start_step: u64,
    pub end_step: u64,
    pub start_seq: u64,
    pub end_seq: u64,
    /// uid -> canonical record, or the error
    pub result: Result<BTreeMap<u64, String>, String>,
}

pub struct Held {
    pub searcher: Searcher,
    pub fingerprint: String,
    pub by: String,
}

pub struct ReaderSide {
    pub readers: Vec<IndexReader>,
    pub events: Arc<StdMutex<Vec<ReaderEvent>>>,
    pub held: Vec<Held>,
    pub handles: Vec<shuttle::thread::JoinHandle<Vec<String>>>,
    pub stop: Arc<AtomicBool>,
    pub index_b: Option<Index>,
}

thread_local! {
    pub static READERS: std::cell::RefCell<Option<ReaderSide>> = const { std::cell::RefCell::new(None) };
}

fn canon_map(d: &dump::Dump) -> Result<BTreeMap<u64, String>, String> {
    let mut m = BTreeMap::new();
    for r in d.records() {
        if m.insert(r.uid, r.canon()).is_some() {
            return Err(format!("doc uid={} present twice", r.uid));
        }
    }
    Ok(m)
}

fn observe(reader: &IndexReader, idx: usize, do_reload: bool, f: &Fields, dir: &SimDir, who: &str) -> ReaderEvent {
    let (s0, q0) = (sched::step(), dir.op_count());
    let res = if do_reload { reader.reload().map_err(|e| format!("reload failed: {e}")) } else { Ok(()) };
    let result = res.and_then(|_| {
        let s = reader.searcher();
        dump::dump_searcher(&s, f).map_err(|e| format!("search failed: {e}")).and_then(|d| canon_map(&d))
    });
    let (s1, q1) = (sched::step(), dir.op_count());
    ReaderEvent { reader: idx, thread: who.to_string(), reload: do_reload, start_step: s0, end_step: s1, start_seq: q0, end_seq: q1, result }
}

pub fn setup_readers(e: &mut Exec, spawn_threads: bool) -> Result<(), String> {
    let cfg = &e.case.cfg;
    let policy = if cfg.reader_on_commit { ReloadPolicy::OnCommitWithDelay } else { ReloadPolicy::Manual };
    let mut readers = vec![];
    let mut index_b = None;
    for r in 0..cfg.n_readers {
        let idx: Index = if cfg.second_index_reader && r == cfg.n_readers - 1 {
            let ib = Index::open(simdir::boxed(&e.dir)).map_err(|x| format!("HARNESS: second Index::open: {x}"))?;
            index_b = Some(ib.clone());
            ib
        } else {
            e.index.clone()
        };
        let rd: IndexReader = idx
            .reader_builder()
            .reload_policy(policy)
            .try_into()
            .map_err(|x| format!("HARNESS: reader: {x}"))?;
        readers.push(rd);
    }
    let events: Arc<StdMutex<Vec<ReaderEvent>>> = Arc::new(StdMutex::new(vec![]));
    let stop = Arc::new(AtomicBool::new(false));
    let mut handles = vec![];
    let mut rng = Rng::new(derive(e.case.seed, &[0x5EAD]));
    // reader threads: thread t uses reader t % n (so with 2 threads on 1 reader they share it)
    let n_threads = if !spawn_threads {
        0
    } else if rng.chance(1, 3) {
        cfg.n_readers + 1
    } else {
        cfg.n_readers
    };
    for t in 0..n_threads {
        let ridx = t % cfg.n_readers;
        let reader = readers[ridx].clone();
        let ev = events.clone();
        let st = stop.clone();
        let fields = e.fields.clone();
        let dir = e.dir.clone();
        let iters = rng.range(2, 7);
        let plan: Vec<(bool, bool)> = (0..iters).map(|_| (rng.chance(3, 4), rng.chance(1, 4))).collect();
        let name = format!("reader{t}");
        let name2 = name.clone();
        let h = shuttle::thread::Builder::new()
            .name(name)
            .spawn(move || {
                let mut held: Vec<(Searcher, String)> = vec![];
                let mut problems = vec![];
                for (do_reload, hold) in plan {
                    if st.load(Ordering::SeqCst) {
                        break;
                    }
                    let evt = observe(&reader, ridx, do_reload, &fields, &dir, &name2);
                    ev.lock().unwrap().push(evt);
                    for (s, fp) in &held {
                        match dump::fingerprint(s, &fields) {
                            Ok(now) => {
                                if &now != fp {
                                    problems.push(format!("held searcher changed: <{fp}> -> <{now}>"));
                                }
                            }
                            Err(x) => problems.push(format!("held searcher failed: {x}")),
                        }
                    }
                    if hold {
                        let s = reader.searcher();
                        if let Ok(fp) = dump::fingerprint(&s, &fields) {
                            held.push((s, fp));
                        }
                    }
                    shuttle::thread::yield_now();
                }
                // last look at the held searchers, after whatever the writer did meanwhile
                for (s, fp) in &held {
                    match dump::fingerprint(s, &fields) {
                        Ok(now) => {
                            if &now != fp {
                                problems.push(format!("held searcher changed: <{fp}> -> <{now}>"));
                            }
                        }
                        Err(x) => problems.push(format!("held searcher failed: {x}")),
                    }
                }
                problems
            })
            .map_err(|x| format!("HARNESS: spawn reader: {x}"))?;
        handles.push(h);
    }
    READERS.with(|r| {
        *r.borrow_mut() = Some(ReaderSide { readers, events, held: vec![], handles, stop, index_b });
    });
    Ok(())
}

fn body_readers(prop: &'static str, case: &Case) -> RunOut {
    let mut e = match Exec::new(case, prop) {
        Ok(e) => e,
        Err(m) => return harness_fail(m),
    };
    if let Err(m) = setup_readers(&mut e, true) {
        READERS.with(|r| *r.borrow_mut() = None);
        return harness_fail(m);
    }
    e.dir.arm(true);
    e.run_ops();
    // stop and join the reader threads
    let side = READERS.with(|r| r.borrow_mut().take()).unwrap();
    let ReaderSide { readers, events, mut held, handles, stop, index_b } = side;
    for h in handles {
        match h.join() {
            Ok(problems) => {
                for p in problems {
                    e.out.violate("C05", "held_searcher", p);
                }
            }
            Err(_) => e.out.violate(prop, "reader_thread_panic", "a reader thread panicked".into()),
        }
    }
    stop.store(true, Ordering::SeqCst);
    // held searchers survive the writer shutting down and a final GC
    e.phase_quiesce(true);
    for h in held.drain(..) {
        match dump::fingerprint(&h.searcher, &e.fields) {
            Ok(now) => {
                if now != h.fingerprint {
                    e.out.violate("C05", "held_searcher", format!("searcher held by {} changed after shutdown", h.by));
                }
            }
            Err(x) => e.out.violate("C05", "held_searcher", format!("searcher held by {} failed after shutdown: {x}", h.by)),
        }
    }
    // a last reload of every reader sees the final commit
    for (i, rd) in readers.iter().enumerate() {
        let evt = observe(rd, i, true, &e.fields, &e.dir, "main-final");
        events.lock().unwrap().push(evt);
    }
    drop(readers);
    drop(index_b);
    e.check_publications();
    let evs: Vec<ReaderEvent> = events.lock().unwrap().clone();
    check_reader_events(&mut e, &evs, prop);
    for ev in evs.iter().filter(|x| x.reload).take(3) {
        e.out.note(format!("reader event: {} reloaded reader {} during storage ops {}..{} (steps {}..{}) and saw uids {:?}", ev.thread, ev.reader, ev.start_seq, ev.end_seq, ev.start_step, ev.end_step, ev.result.as_ref().map(|m| m.keys().cloned().collect::<Vec<_>>()).unwrap_or_default()));
    }
    let overlapped = evs.iter().filter(|x| x.reload && x.end_seq > x.start_seq).count() as u64;
    e.out.probe_n("reader_events", evs.len() as u64);
    e.out.nontrivial = e.out.commits_ok >= 1 && overlapped >= 1;
    sched::set_calm(false);
    e.finish()
}

/// Post-hoc oracle over the recorded reader history.
pub fn check_reader_events(e: &mut Exec, evs: &[ReaderEvent], prop: &'static str) {
    let commit_maps: Vec<BTreeMap<u64, String>> = e
        .model
        .commits
        .iter()
        .map(|c| c.docs.iter().map(|d| (d.uid, model::expected_record(d, &e.fields).canon())).collect())
        .collect();
    // (event index, matching commits)
    let mut matched: Vec<(usize, Vec<usize>)> = vec![];
    for (i, ev) in evs.iter().enumerate() {
        match &ev.result {
            Err(msg) => {
                if e.fault_profile_reads {
                    // under injected faults a reload may fail: the error was reported to the caller
                    e.out.probe("reader_error_reported_under_fault");
                    continue;
                }
                e.out.violate(
                    prop,
                    if ev.reload { "reload_failed" } else { "search_failed" },
                    format!("{} on reader {} (storage ops {}..{}): {msg}", ev.thread, ev.reader, ev.start_seq, ev.end_seq),
                );
                return;
            }
            Ok(map) => {
                // commits that were current or in flight during the reload window
                let mut allowed: BTreeSet<usize> = BTreeSet::new();
                if ev.reload {
                    for a in e.allowed_at(ev.start_seq) {
                        allowed.insert(a);
                    }
                    for a in e.allowed_at(ev.end_seq) {
                        allowed.insert(a);
                    }
                    for c in &e.commit_events {
                        if c.start_seq <= ev.end_seq && c.end_seq > ev.start_seq {
                            if let Some(m) = c.model_after {
                                allowed.insert(m);
                            }
                        }
                    }
                } else {
                    // no reload: any commit published so far
                    let upper = e.allowed_at(ev.end_seq).into_iter().max().unwrap_or(0);
                    for a in 0..=upper {
                        allowed.insert(a);
                    }
                }
                let js: Vec<usize> = allowed.iter().cloned().filter(|j| &commit_maps[*j] == map).collect();
                if js.is_empty() {
                    let any: Vec<usize> = (0..commit_maps.len()).filter(|j| &commit_maps[*j] == map).collect();
                    let what = if any.is_empty() {
                        "is not the content of any commit (mixture or uncommitted work)".to_string()
                    } else {
                        format!("is commit(s) {any:?}, none of which could be current")
                    };
                    e.out.violate(
                        "C05",
                        "reader_state_not_a_current_commit",
                        format!(
                            "{} {} reader {} during storage ops {}..{} saw uids {:?}, which {what}; allowed commits {:?}",
                            ev.thread,
                            if ev.reload { "reloaded" } else { "looked at" },
                            ev.reader,
                            ev.start_seq,
                            ev.end_seq,
                            map.keys().collect::<Vec<_>>(),
                            allowed
                        ),
                    );
                    return;
                }
                matched.push((i, js));
            }
        }
    }
    // monotonicity per IndexReader (real-time order by scheduler step)
    for (ia, ja) in &matched {
        for (ib, jb) in &matched {
            let (a, b) = (&evs[*ia], &evs[*ib]);
            if a.reader == b.reader && a.end_step < b.start_step {
                let min_a = *ja.iter().min().unwrap();
                let max_b = *jb.iter().max().unwrap();
                if max_b < min_a {
                    e.out.violate(
                        "C05",
                        "reader_went_back",
                        format!(
                            "reader {}: {} saw commit#{min_a} (steps {}..{}), later {} saw commit#{max_b} (steps {}..{}, reload={})",
                            a.reader, a.thread, a.start_step, a.end_step, b.thread, b.start_step, b.end_step, b.reload
                        ),
                    );
                    return;
                }
            }
        }
    }
}

/// Reader operations issued by the main thread.
fn main_reader_op(e: &mut Exec, op: &Op) {
    let Some(mut side) = READERS.with(|r| r.borrow_mut().take()) else { return };
    match op {
        Op::Reload(r) => {
            if let Some(rd) = side.readers.get(*r) {
                let evt = observe(rd, *r, true, &e.fields, &e.dir, "main");
                side.events.lock().unwrap().push(evt);
            }
        }
        Op::Hold(r) => {
            if let Some(rd) = side.readers.get(*r) {
                let s = rd.searcher();
                if let Ok(fp) = dump::fingerprint(&s, &e.fields) {
                    side.held.push(Held { searcher: s, fingerprint: fp, by: "main".into() });
                }
            }
        }
        Op::Recheck => {
            for h in &side.held {
                match dump::fingerprint(&h.searcher, &e.fields) {
                    Ok(now) => {
                        if now != h.fingerprint {
                            e.out.violate("C05", "held_searcher", format!("held searcher changed: <{}> -> <{now}>", h.fingerprint));
                        }
                    }
                    Err(x) => e.out.violate("C05", "held_searcher", format!("held searcher failed: {x}")),
                }
            }
        }
        _ => {}
    }
    READERS.with(|r| *r.borrow_mut() = Some(side));
}

// ----------------------------------------------------------------------------------------------
// C18: writer lock

thread_local! {
    static INDEX2: std::cell::RefCell<Option<Index>> = const { std::cell::RefCell::new(None) };
}

pub fn forget_stale() {
    READERS.with(|r| {
        if let Some(x) = r.borrow_mut().take() {
            std::mem::forget(x);
        }
    });
    INDEX2.with(|i| {
        if let Some(x) = i.borrow_mut().take() {
            std::mem::forget(x);
        }
    });
}

fn is_lock_failure(e: &tantivy::TantivyError) -> bool {
    matches!(e, tantivy::TantivyError::LockFailure(..))
}

fn writer_opts(kind: u8, cfg: &Cfg) -> tantivy::indexer::IndexWriterOptions {
    use tantivy::indexer::IndexWriterOptions;
    let b = IndexWriterOptions::builder().num_merge_threads(cfg.merge_threads);
    match kind {
        1 => b.num_worker_threads(1).memory_budget_per_thread(1_000_000).build(),
        2 => b.num_worker_threads(1).memory_budget_per_thread(u32::MAX as usize).build(),
        3 => b.num_worker_threads(0).memory_budget_per_thread(exec::BUDGET).build(),
        _ => b.num_worker_threads(cfg.index_threads.max(1)).memory_budget_per_thread(exec::BUDGET).build(),
    }
}

fn body_lock(case: &Case) -> RunOut {
    let mut e = match Exec::new(case, "C18") {
        Ok(e) => e,
        Err(m) => return harness_fail(m),
    };
    let i2 = if case.cfg.second_index_reader {
        match Index::open(simdir::boxed(&e.dir)) {
            Ok(i) => Some(i),
            Err(x) => return harness_fail(format!("HARNESS: second Index::open: {x}")),
        }
    } else {
        None
    };
    INDEX2.with(|i| *i.borrow_mut() = i2);
    e.dir.arm(false);
    e.run_ops();
    INDEX2.with(|i| *i.borrow_mut() = None);
    e.out.nontrivial = e.out.probes.get("lock_attempt_refused").cloned().unwrap_or(0) >= 1
        || e.out.probes.get("race_create").cloned().unwrap_or(0) >= 1;
    // final: the last writer works
    if e.writer.is_some() && e.out.violations.is_empty() {
        e.exec_op(&Op::Add(DocSpec { uid: 3_000_000, key: 0, body: vec![3], tag: 0, sortv: None, js: 0 }));
        e.exec_op(&Op::Commit);
    }
    e.phase_quiesce(false);
    sched::set_calm(false);
    e.finish()
}

fn pick_index(e: &Exec, second: bool) -> Index {
    if second {
        if let Some(i) = INDEX2.with(|i| i.borrow().clone()) {
            return i;
        }
    }
    e.index.clone()
}

fn lock_op(e: &mut Exec, op: &Op) {
    let cfg = e.case.cfg.clone();
    match op {
        Op::CreateWriter { kind, second_index } => {
            let idx = pick_index(e, *second_index);
            let held = e.writer.is_some();
            let res = catch(|| idx.writer_with_options::<tantivy::TantivyDocument>(writer_opts(*kind, &cfg)));
            match res {
                Err(p) => e.out.violate("C18", "panic_on_calling_thread", format!("writer_with_options: {p}")),
                Ok(Ok(w)) => {
                    if held {
                        e.out.violate("C18", "second_writer_created", "a second IndexWriter was created while one is alive".into());
                    } else if *kind != 0 {
                        e.out.violate("C18", "invalid_options_accepted", format!("writer options kind {kind} accepted"));
                    } else {
                        e.out.probe("writer_created");
                        e.writer = Some(w);
                        e.model.rollback();
                        e.last_stamp = None;
                        e.txn_ops = 0;
                    }
                }
                Ok(Err(err)) => {
                    if held {
                        if is_lock_failure(&err) {
                            e.out.probe("lock_attempt_refused");
                        } else {
                            e.out.violate("C18", "wrong_error_while_locked", format!("expected a lock error, got: {err}"));
                        }
                    } else if *kind == 0 {
                        e.out.violate("C18", "writer_refused_while_unlocked", format!("no writer is alive but creation failed: {err}"));
                    } else if is_lock_failure(&err) {
                        e.out.violate("C18", "writer_refused_while_unlocked", format!("no writer is alive but the lock is busy: {err}"));
                    } else {
                        e.out.probe("failed_construction");
                    }
                }
            }
        }
        Op::NewWriterAttempt { second_index } => {
            if e.writer.is_none() {
                return;
            }
            let idx = pick_index(e, *second_index);
            match catch(|| idx.writer_with_options::<tantivy::TantivyDocument>(writer_opts(0, &cfg))) {
                Err(p) => e.out.violate("C18", "panic_on_calling_thread", format!("writer attempt: {p}")),
                Ok(Ok(_w)) => e.out.violate("C18", "second_writer_created", "a second IndexWriter was created while one is alive".into()),
                Ok(Err(err)) => {
                    if is_lock_failure(&err) {
                        e.out.probe("lock_attempt_refused");
                    } else {
                        e.out.violate("C18", "wrong_error_while_locked", format!("expected a lock error, got: {err}"));
                    }
                }
            }
            // the alive writer is not disturbed
            e.exec_op(&Op::Add(DocSpec { uid: 4_000_000 + e.out.steps + sched::step(), key: 0, body: vec![2], tag: 0, sortv: None, js: 0 }));
            e.exec_op(&Op::Commit);
        }
        Op::DropWriter => {
            e.pending_merges.clear();
            if let Some(w) = e.writer.take() {
                if let Err(p) = catch(|| drop(w)) {
                    e.out.violate("C18", "panic_on_calling_thread", format!("drop(writer): {p}"));
                }
                e.model.rollback();
                e.last_stamp = None;
                e.txn_ops = 0;
            }
        }
        Op::RaceCreate { n } => {
            if e.writer.is_some() {
                return;
            }
            e.out.probe("race_create");
            let results: Arc<StdMutex<Vec<(String, Option<(u64, u64)>, Option<String>)>>> = Arc::new(StdMutex::new(vec![]));
            let stamps: Arc<StdMutex<Vec<(String, u64)>>> = Arc::new(StdMutex::new(vec![]));
            let mut hs = vec![];
            let mut contender_docs: Vec<(String, DocSpec)> = vec![];
            for t in 0..*n {
                let idx = if t % 2 == 1 { pick_index(e, true) } else { e.index.clone() };
                let cfg2 = cfg.clone();
                let res = results.clone();
                let name = format!("contender{t}");
                let name2 = name.clone();
                let stamps2 = stamps.clone();
                let cfields = e.fields.clone();
                let cdoc = DocSpec { uid: 6_000_000 + sched::step() * 8 + t as u64, key: 9, body: vec![4], tag: 0, sortv: None, js: 0 };
                contender_docs.push((format!("contender{t}"), cdoc.clone()));
                let h = shuttle::thread::Builder::new().name(name).spawn(move || {
                    match idx.writer_with_options::<tantivy::TantivyDocument>(writer_opts(0, &cfg2)) {
                        Ok(mut w) => {
                            let a = sched::step();
                            // the holder works with its writer: its commit must not be lost, whoever
                            // gets the lock next
                            let mut err = None;
                            match w.add_document(cdoc.to_tantivy(&cfields)).and_then(|_| w.commit()) {
                                Ok(st) => stamps2.lock().unwrap().push((name2.clone(), st)),
                                Err(x) => err = Some(format!("contender add/commit failed: {x}")),
                            }
                            shuttle::thread::yield_now();
                            let b = sched::step();
                            drop(w);
                            res.lock().unwrap().push((name2, Some((a, b)), err));
                        }
                        Err(err) => {
                            let lf = is_lock_failure(&err);
                            res.lock().unwrap().push((name2, None, if lf { None } else { Some(err.to_string()) }));
                        }
                    }
                });
                match h {
                    Ok(h) => hs.push(h),
                    Err(x) => {
                        e.out.harness_error = Some(format!("HARNESS: spawn contender: {x}"));
                        return;
                    }
                }
            }
            for h in hs {
                if h.join().is_err() {
                    e.out.violate("C18", "contender_panic", "a racing writer creation panicked".into());
                }
            }
            let rs = results.lock().unwrap().clone();
            let holders: Vec<&(String, Option<(u64, u64)>, Option<String>)> = rs.iter().filter(|r| r.1.is_some()).collect();
            for r in &rs {
                if let Some(msg) = &r.2 {
                    e.out.violate("C18", "wrong_error_while_locked", format!("{}: {msg}", r.0));
                }
            }
            if holders.is_empty() {
                e.out.violate("C18", "writer_refused_while_unlocked", format!("{n} racing creations on an unlocked index all failed"));
            }
            // every holder committed one document: all of them are in the index afterwards
            let mut hs2: Vec<&(String, Option<(u64, u64)>, Option<String>)> = holders.clone();
            hs2.sort_by_key(|h| h.1.unwrap().0);
            for h in hs2 {
                if let Some((_, d)) = contender_docs.iter().find(|(n, _)| *n == h.0) {
                    e.specs.insert(d.uid, d.clone());
                    e.model.add(d.clone());
                    let st = stamps.lock().unwrap().iter().find(|(n, _)| *n == h.0).map(|x| x.1);
                    e.model.commit(Some(st.unwrap_or(0)), None);
                }
            }
            if e.out.violations.is_empty() {
                e.check_content("after_racing_writers");
            }
            for a in &holders {
                for b in &holders {
                    if a.0 < b.0 {
                        let (ia, ib) = (a.1.unwrap(), b.1.unwrap());
                        if ia.0 <= ib.1 && ib.0 <= ia.1 {
                            e.out.violate(
                                "C18",
                                "two_writers_alive",
                                format!("{} held a writer during steps {:?} and {} during {:?}", a.0, ia, b.0, ib),
                            );
                        }
                    }
                }
            }
        }
        Op::FaultyRollback => {
            if e.writer.is_none() {
                return;
            }
            let at = e.dir.op_count();
            e.dir.with(|s| {
                s.plan.fails = vec![FailSpec { at, mode: FailMode::FromOn }];
                s.armed = true;
            });
            let res = {
                let w = e.writer.as_mut().unwrap();
                catch(|| w.rollback())
            };
            e.dir.with(|s| {
                s.plan.fails.clear();
                s.armed = false;
            });
            e.pending_merges.clear();
            e.model.rollback();
            e.last_stamp = None;
            e.txn_ops = 0;
            match res {
                Err(p) => {
                    e.out.violate("C18", "panic_on_calling_thread", format!("rollback under I/O errors: {p}"));
                    return;
                }
                Ok(Ok(_)) => e.out.probe("faulty_rollback_succeeded"),
                Ok(Err(_)) => {
                    e.out.probe("faulty_rollback_failed");
                    // the writer object is still alive: it must still own the lock
                    let idx = pick_index(e, false);
                    match catch(|| idx.writer_with_options::<tantivy::TantivyDocument>(writer_opts(0, &cfg))) {
                        Err(p) => e.out.violate("C18", "panic_on_calling_thread", format!("writer attempt: {p}")),
                        Ok(Ok(_)) => {
                            e.out.violate(
                                "C18",
                                "second_writer_created",
                                "a second IndexWriter was created while the writer whose rollback() failed is still alive".into(),
                            );
                            e.stop = true;
                            return;
                        }
                        Ok(Err(err)) => {
                            if is_lock_failure(&err) {
                                e.out.probe("lock_attempt_refused");
                            } else {
                                e.out.violate("C18", "wrong_error_while_locked", format!("expected a lock error, got: {err}"));
                            }
                        }
                    }
                    // the storage works again: rolling back once more must work (or at least not panic);
                    // if it fails the client drops the writer and opens a new one
                    let res2 = {
                        let w = e.writer.as_mut().unwrap();
                        catch(|| w.rollback())
                    };
                    match res2 {
                        Err(p) => {
                            e.out.violate("C18", "panic_on_calling_thread", format!("second rollback after a failed one: {p}"));
                            return;
                        }
                        Ok(Ok(_)) => e.out.probe("rollback_retried_ok"),
                        Ok(Err(_)) => {
                            lock_op(e, &Op::DropWriter);
                            lock_op(e, &Op::CreateWriter { kind: 0, second_index: false });
                            if e.writer.is_none() && e.out.violations.is_empty() {
                                e.out.violate("C18", "writer_refused_while_unlocked", "no writer after dropping the writer whose rollback failed".into());
                            }
                        }
                    }
                }
            }
        }
        Op::WaitMergesRace => {
            if e.writer.is_none() {
                return;
            }
            // make sure there is something to merge, start the merge and leave it pending
            for k in 0..2u64 {
                e.exec_op(&Op::Add(DocSpec { uid: 7_000_000 + sched::step() * 4 + k, key: 8, body: vec![5], tag: 0, sortv: None, js: 0 }));
                e.exec_op(&Op::Commit);
            }
            e.exec_op(&Op::Merge { sel: 7, wait: false });
            if e.stop || !e.out.violations.is_empty() {
                return;
            }
            let old_max_task = sched::OUT.with(|o| o.borrow().max_tasks);
            let done = Arc::new(AtomicBool::new(false));
            let results: Arc<StdMutex<Vec<(String, u64)>>> = Arc::new(StdMutex::new(vec![]));
            let mut hs = vec![];
            for t in 0..2usize {
                let idx = if t % 2 == 1 { pick_index(e, true) } else { e.index.clone() };
                let cfg2 = cfg.clone();
                let done2 = done.clone();
                let res = results.clone();
                let name = format!("contender{t}");
                let name2 = name.clone();
                if let Ok(h) = shuttle::thread::Builder::new().name(name).spawn(move || {
                    for _ in 0..6 {
                        if done2.load(Ordering::SeqCst) {
                            break;
                        }
                        if let Ok(w) = idx.writer_with_options::<tantivy::TantivyDocument>(writer_opts(0, &cfg2)) {
                            let a = sched::step();
                            drop(w);
                            res.lock().unwrap().push((name2.clone(), a));
                            break;
                        }
                        shuttle::thread::yield_now();
                    }
                }) {
                    hs.push(h);
                }
            }
            e.pending_merges.clear();
            let w = e.writer.take().unwrap();
            let r = catch(|| w.wait_merging_threads());
            let end = sched::step();
            done.store(true, Ordering::SeqCst);
            for h in hs {
                let _ = h.join();
            }
            e.model.rollback();
            e.last_stamp = None;
            e.txn_ops = 0;
            e.out.probe("wait_merges_race");
            match r {
                Err(p) => e.out.violate("C18", "panic_on_calling_thread", format!("wait_merging_threads: {p}")),
                Ok(Err(x)) => e.out.violate("C18", "api_error_without_fault", format!("wait_merging_threads: {x}")),
                Ok(Ok(())) => {}
            }
            // Sound evidence of two writers alive: a background thread of the previous writer (task id
            // below those created for this race) still issued a storage operation after another writer
            // had been created. (Comparing with the step at which the call returned would not be sound:
            // the lock is released inside the call.)
            let _ = end;
            for (who, a) in results.lock().unwrap().iter() {
                let late: Option<String> = e.dir.with(|st| {
                    st.log.iter().rev().find_map(|r| {
                        let name = &st.tasks[r.task as usize];
                        let id: usize = name.rsplit('#').next().and_then(|x| x.parse().ok()).unwrap_or(usize::MAX);
                        if r.step > *a && id != 0 && id < old_max_task {
                            Some(format!("{name} {:?} {} at step {}", r.kind, st.paths[r.path as usize].display(), r.step))
                        } else {
                            None
                        }
                    })
                });
                if let Some(l) = late {
                    e.out.violate(
                        "C18",
                        "two_writers_alive",
                        format!("{who} created a writer at step {a} while a thread of the previous writer was still working: {l}"),
                    );
                }
            }
        }
        Op::DropRace => {
            if e.writer.is_none() {
                return;
            }
            // a backlog of uncommitted documents: the indexing workers are busy when the writer is dropped
            for k in 0..6u64 {
                e.exec_op(&Op::Add(DocSpec { uid: 8_000_000 + sched::step() * 8 + k, key: 8, body: vec![5], tag: 0, sortv: None, js: 0 }));
            }
            if e.stop || !e.out.violations.is_empty() || e.writer.is_none() {
                return;
            }
            let old_max_task = sched::OUT.with(|o| o.borrow().max_tasks);
            let done = Arc::new(AtomicBool::new(false));
            let results: Arc<StdMutex<Vec<(String, u64)>>> = Arc::new(StdMutex::new(vec![]));
            let mut hs = vec![];
            for t in 0..2usize {
                let idx = if t % 2 == 1 { pick_index(e, true) } else { e.index.clone() };
                let cfg2 = cfg.clone();
                let done2 = done.clone();
                let res = results.clone();
                let name = format!("contender{t}");
                let name2 = name.clone();
                if let Ok(h) = shuttle::thread::Builder::new().name(name).spawn(move || {
                    for _ in 0..6 {
                        if done2.load(Ordering::SeqCst) {
                            break;
                        }
                        if let Ok(w) = idx.writer_with_options::<tantivy::TantivyDocument>(writer_opts(0, &cfg2)) {
                            let a = sched::step();
                            drop(w);
                            res.lock().unwrap().push((name2.clone(), a));
                            break;
                        }
                        shuttle::thread::yield_now();
                    }
                }) {
                    hs.push(h);
                }
            }
            e.pending_merges.clear();
            let w = e.writer.take().unwrap();
            let r = catch(|| drop(w));
            done.store(true, Ordering::SeqCst);
            for h in hs {
                let _ = h.join();
            }
            e.model.rollback();
            e.last_stamp = None;
            e.txn_ops = 0;
            e.out.probe("drop_race");
            if let Err(p) = r {
                e.out.violate("C18", "panic_on_calling_thread", format!("drop(writer): {p}"));
            }
            // Sound evidence of two writers alive: an *indexing worker* of the dropped writer (drop() joins
            // the workers before the lock guard goes away; merge threads are not waited for by drop() and do
            // not count) still issued a storage operation after another writer had been created.
            for (who, a) in results.lock().unwrap().iter() {
                e.out.probe("drop_race_contender_won");
                let late: Option<String> = e.dir.with(|st| {
                    st.log.iter().rev().find_map(|r| {
                        let name = &st.tasks[r.task as usize];
                        let id: usize = name.rsplit('#').next().and_then(|x| x.parse().ok()).unwrap_or(usize::MAX);
                        if r.step > *a && id != 0 && id < old_max_task && name.starts_with("thrd-tantivy-index") {
                            Some(format!("{name} {:?} {} at step {}", r.kind, st.paths[r.path as usize].display(), r.step))
                        } else {
                            None
                        }
                    })
                });
                if let Some(l) = late {
                    e.out.violate(
                        "C18",
                        "two_writers_alive",
                        format!("{who} created a writer at step {a} while an indexing worker of the dropped writer was still working: {l}"),
                    );
                }
            }
        }
        Op::KillWorker => {
            if e.writer.is_none() {
                return;
            }
            // every storage operation fails from now on: the next segment write kills a worker
            let at = e.dir.op_count();
            e.dir.with(|s| {
                s.plan.fails = vec![FailSpec { at, mode: FailMode::FromOn }];
                s.armed = true;
            });
            e.fault_profile = true;
            let mut killed = false;
            for k in 0..6u64 {
                let d = DocSpec { uid: 5_000_000 + at * 10 + k, key: 0, body: vec![1], tag: 0, sortv: None, js: 0 };
                e.exec_op(&Op::Add(d));
                if e.stop {
                    killed = true;
                    break;
                }
            }
            if !killed {
                e.exec_op(&Op::Commit);
            }
            e.dir.with(|s| {
                s.plan.fails.clear();
                s.armed = false;
            });
            e.fault_profile = false;
            e.stop = false;
            // every storage op failed since `at`: a failed commit cannot have been published
            while e.model.commits.len() > 1 && e.model.commits.last().map(|c| c.opstamp.is_none()).unwrap_or(false) {
                e.model.commits.pop();
            }
            e.commit_events.retain(|c| c.ok || c.model_after.is_none());
            e.model.rollback();
            e.out.probe("worker_killed");
            // the killed writer still holds the lock until it is dropped
            let idx = pick_index(e, false);
            match catch(|| idx.writer_with_options::<tantivy::TantivyDocument>(writer_opts(0, &cfg))) {
                Err(p) => e.out.violate("C18", "panic_on_calling_thread", format!("writer attempt: {p}")),
                Ok(Ok(_)) => e.out.violate("C18", "second_writer_created", "a writer was created while the killed writer is still alive".into()),
                Ok(Err(err)) => {
                    if is_lock_failure(&err) {
                        e.out.probe("lock_attempt_refused");
                    } else {
                        e.out.violate("C18", "wrong_error_while_locked", format!("expected a lock error, got: {err}"));
                    }
                }
            }
            lock_op(e, &Op::DropWriter);
            lock_op(e, &Op::CreateWriter { kind: 0, second_index: false });
            if e.writer.is_none() && e.out.violations.is_empty() {
                e.out.violate("C18", "writer_refused_while_unlocked", "no writer after dropping the killed writer".into());
            }
        }
        _ => {}
    }
}

// ----------------------------------------------------------------------------------------------
// C20: checksum validation

fn body_damage(case: &Case) -> RunOut {
    let mut e = match Exec::new(case, "C20") {
        Ok(e) => e,
        Err(m) => return harness_fail(m),
    };
    e.dir.arm(true);
    e.run_ops();
    e.phase_quiesce(true);
    if !e.out.violations.is_empty() {
        return e.finish();
    }
    let img = e.dir.visible_image();
    // write side: every managed file ends with a footer whose checksum covers exactly the body
    let intact = match validate(&img) {
        Ok(v) => v,
        Err(x) => {
            e.out.violate("C20", "intact_index_rejected", x);
            return e.finish();
        }
    };
    if !intact.is_empty() {
        e.out.violate("C20", "intact_index_reported_damaged", format!("{intact:?} (written with short writes {}%, EINTR {}%)", case.cfg.faults.short_write_pct, case.cfg.faults.eintr_pct));
        return e.finish();
    }
    let metas = match e.index.searchable_segment_metas() {
        Ok(m) => m,
        Err(x) => return harness_fail(format!("HARNESS: metas: {x}")),
    };
    let files: Vec<PathBuf> = exec::expected_files(&metas)
        .into_iter()
        .filter(|p| !p.to_string_lossy().ends_with(".json"))
        .filter(|p| img.contains_key(p))
        .collect();
    let thorough = case.cfg.crash_samples == 0;
    let mut rng = Rng::new(derive(case.seed, &[0xDA]));
    let mut cases = 0u64;
    'files: for f in &files {
        let data = &img[f];
        let Some(body_len) = body_len_of(data) else {
            e.out.violate("C20", "footer_unparseable", format!("{} has no parseable footer", f.display()));
            break;
        };
        // reading back through the index directory yields exactly the body (both read entry points)
        {
            let dir = e.index.directory();
            let body = &data[..body_len];
            match catch(|| dir.open_read(f).and_then(|s| s.read_bytes().map_err(|x| tantivy::directory::error::OpenReadError::wrap_io_error(x, f.clone())))) {
                Ok(Ok(b)) if b.as_slice() == body => {}
                Ok(Ok(b)) => {
                    e.out.violate("C20", "readback_mismatch", format!("open_read({}) yields {} bytes, the written content has {}", f.display(), b.len(), body_len));
                    break;
                }
                Ok(Err(x)) => {
                    e.out.violate("C20", "readback_mismatch", format!("open_read({}) of an intact file: {x:?}", f.display()));
                    break;
                }
                Err(p) => {
                    e.out.violate("C20", "readback_mismatch", format!("open_read({}) panics: {p}", f.display()));
                    break;
                }
            }
            match catch(|| dir.get_file_handle(f).map(|h| (h.len(), h.read_bytes(0..h.len().min(body_len))))) {
                Ok(Ok((len, Ok(b)))) if len == body_len && b.as_slice() == body => {}
                Ok(Ok((len, r))) => {
                    e.out.violate("C20", "readback_mismatch", format!("get_file_handle({}) has length {len} (read ok: {}), the written content has {body_len} bytes", f.display(), r.map(|b| b.as_slice() == body).unwrap_or(false)));
                    break;
                }
                Ok(Err(x)) => {
                    e.out.violate("C20", "readback_mismatch", format!("get_file_handle({}) of an intact file: {x:?}", f.display()));
                    break;
                }
                Err(p) => {
                    e.out.violate("C20", "readback_mismatch", format!("get_file_handle({}) panics: {p}", f.display()));
                    break;
                }
            }
        }
        let mut damages: Vec<(String, Vec<u8>)> = vec![];
        let all_bits = if thorough { body_len <= 4096 } else { body_len <= 96 };
        if all_bits {
            for bit in 0..body_len * 8 {
                let mut d = data.clone();
                d[bit / 8] ^= 1 << (bit % 8);
                damages.push((format!("bitflip@{bit}"), d));
            }
        } else {
            for _ in 0..(if thorough { 512 } else { 48 }) {
                let bit = rng.below(body_len as u64 * 8) as usize;
                let mut d = data.clone();
                d[bit / 8] ^= 1 << (bit % 8);
                damages.push((format!("bitflip@{bit}"), d));
            }
        }
        let trunc_all = thorough || data.len() <= 200;
        let lens: Vec<usize> = if trunc_all {
            (0..data.len()).collect()
        } else {
            let mut v: Vec<usize> = (0..24).map(|_| rng.below(data.len() as u64) as usize).collect();
            v.extend(0..9.min(data.len()));
            v.extend(data.len().saturating_sub(70)..data.len());
            v.sort();
            v.dedup();
            v
        };
        for l in lens {
            damages.push((format!("truncate@{l}"), data[..l].to_vec()));
        }
        for k in [1usize, 2, 7, 8, 9, 64] {
            let mut d = data.clone();
            for _ in 0..k {
                d.push(rng.below(256) as u8);
            }
            damages.push((format!("extend+{k}"), d));
        }
        if body_len > 0 {
            for _ in 0..(if thorough { 64 } else { 12 }) {
                let mut d = data.clone();
                let n = rng.range(1, 4) as usize;
                for _ in 0..n {
                    let pos = rng.below(body_len as u64) as usize;
                    d[pos] = rng.below(256) as u8;
                }
                // a later substitution may restore an earlier one: compare the result as a whole
                if d != *data {
                    damages.push(("bytes".to_string(), d));
                }
            }
        }
        for (what, damaged) in damages {
            cases += 1;
            if cases % 1009 == 1 {
                e.out.note(format!("damage case: {what} of {} ({} bytes, body {body_len})", f.display(), data.len()));
            }
            let mut img2 = img.clone();
            img2.insert(f.clone(), damaged);
            let res = catch(|| validate(&img2));
            match res {
                Err(p) => {
                    e.out.violate("C20", "validate_checksum_panic", format!("{} of {} ({} bytes, body {}): {p}", what, f.display(), data.len(), body_len));
                    break 'files;
                }
                Ok(Err(_detected_by_error)) => {}
                Ok(Ok(set)) => {
                    if !set.contains(f) {
                        e.out.violate("C20", "damage_not_detected", format!("{} of {} ({} bytes, body {}): validate_checksum reported {:?}", what, f.display(), data.len(), body_len, set));
                        break 'files;
                    }
                    if set.len() != 1 {
                        e.out.violate("C20", "intact_file_reported", format!("{} of {}: validate_checksum reported {:?}", what, f.display(), set));
                        break 'files;
                    }
                }
            }
        }
        // footer version outside the supported range is refused, not misread
        for v in [b'0', b'3', b'8', b'9'] {
            if let Some(d) = with_format_version(data, v) {
                cases += 1;
                let mut img2 = img.clone();
                img2.insert(f.clone(), d);
                let dd = SimDir::from_image(&img2, true);
                // alternate between the two read entry points of the index directory
                let via_handle = cases % 2 == 0;
                let res = catch(|| {
                    Index::open(simdir::boxed(&dd)).and_then(|i| {
                        if via_handle {
                            i.directory().get_file_handle(f).map(|_| ()).map_err(tantivy::TantivyError::from)
                        } else {
                            i.directory().open_read(f).map(|_| ()).map_err(tantivy::TantivyError::from)
                        }
                    })
                });
                match res {
                    Err(p) => {
                        e.out.violate("C20", "open_read_panic", format!("format version '{}' in {}: {p}", v as char, f.display()));
                        break 'files;
                    }
                    Ok(Ok(())) => {
                        e.out.violate("C20", "unsupported_version_accepted", format!("{} with index_format_version {} was opened", f.display(), v as char));
                        break 'files;
                    }
                    Ok(Err(err)) => {
                        let s = format!("{err:?}");
                        if !s.contains("Incompatib") {
                            e.out.violate("C20", "unsupported_version_wrong_error", format!("{}: {s}", f.display()));
                            break 'files;
                        }
                    }
                }
            }
        }
    }
    e.out.fault_points = cases;
    e.out.probe_n("damage_cases", cases);
    e.out.probe_n("damaged_files", files.len() as u64);
    e.out.nontrivial = cases > 0;
    sched::set_calm(false);
    e.finish()
}

/// Body length according to the footer (len + magic trailer), None if unparseable.
fn body_len_of(data: &[u8]) -> Option<usize> {
    if data.len() < 8 {
        return None;
    }
    let n = data.len();
    let flen = u32::from_le_bytes(data[n - 8..n - 4].try_into().ok()?) as usize;
    let magic = u32::from_le_bytes(data[n - 4..].try_into().ok()?);
    if magic != 1337 || flen + 8 > n {
        return None;
    }
    Some(n - 8 - flen)
}

/// The same file with the digit of `index_format_version` replaced.
fn with_format_version(data: &[u8], digit: u8) -> Option<Vec<u8>> {
    let body = body_len_of(data)?;
    let key = b"\"index_format_version\":";
    let footer = &data[body..];
    let pos = footer.windows(key.len()).position(|w| w == key)?;
    let i = body + pos + key.len();
    if !data[i].is_ascii_digit() || data.get(i + 1).map(|c| c.is_ascii_digit()).unwrap_or(false) {
        return None;
    }
    let mut d = data.to_vec();
    d[i] = digit;
    Some(d)
}

/// `Index::validate_checksum()` on an image.
fn validate(img: &Image) -> Result<BTreeSet<PathBuf>, String> {
    let d = SimDir::from_image(img, true);
    let index = Index::open(simdir::boxed(&d)).map_err(|x| format!("open: {x}"))?;
    let set = index.validate_checksum().map_err(|x| format!("validate_checksum: {x}"))?;
    // the per-file API agrees
    for p in &set {
        match index.directory().validate_checksum(p) {
            Ok(true) => return Err(format!("PER-FILE-DISAGREES {}", p.display())),
            _ => {}
        }
    }
    Ok(set.into_iter().collect())
}

// ----------------------------------------------------------------------------------------------
// C02: concurrent producers, linearizability

#[derive(Clone, Debug)]
struct ProdRec {
    thread: usize,
    op: ProdOp,
    invoke: u64,
    ret: u64,
    stamp: Option<u64>,
}

fn body_producers(case: &Case) -> RunOut {
    let mut e = match Exec::new(case, "C02") {
        Ok(e) => e,
        Err(m) => return harness_fail(m),
    };
    e.dir.arm(true);
    e.run_ops();
    e.phase_quiesce(true);
    e.check_publications();
    e.out.nontrivial = e.out.probes.get("producer_histories").cloned().unwrap_or(0) >= 1;
    sched::set_calm(false);
    e.finish()
}

fn fork_op(e: &mut Exec, ps: &[Vec<ProdOp>]) {
    let Some(w) = e.writer.take() else { return };
    let w: Arc<tantivy::IndexWriter> = Arc::new(w);
    let recs: Arc<StdMutex<Vec<ProdRec>>> = Arc::new(StdMutex::new(vec![]));
    let failed: Arc<StdMutex<Vec<String>>> = Arc::new(StdMutex::new(vec![]));
    let mut hs = vec![];
    for (t, p) in ps.iter().enumerate() {
        let recs = recs.clone();
        let failed = failed.clone();
        let fields = e.fields.clone();
        let w = w.clone();
        let p = p.clone();
        let h = shuttle::thread::Builder::new()
            .name(format!("producer{t}"))
            .spawn(move || {
                for op in &p {
                    let i0 = sched::step();
                    let r = match op {
                        ProdOp::Add(d) => w.add_document(d.to_tantivy(&fields)),
                        ProdOp::DeleteKey(k) => Ok(w.delete_term(Term::from_field_u64(fields.key, *k))),
                        ProdOp::Batch(b) => {
                            let ops: Vec<tantivy::indexer::UserOperation> = b
                                .iter()
                                .map(|o| match o {
                                    BatchOp::Add(d) => tantivy::indexer::UserOperation::Add(d.to_tantivy(&fields)),
                                    BatchOp::Delete(k) => tantivy::indexer::UserOperation::Delete(Term::from_field_u64(fields.key, *k)),
                                })
                                .collect();
                            w.run(ops)
                        }
                    };
                    let i1 = sched::step();
                    let stamp = match r {
                        Ok(st) => Some(st),
                        Err(x) => {
                            failed.lock().unwrap().push(x.to_string());
                            None
                        }
                    };
                    recs.lock().unwrap().push(ProdRec { thread: t, op: op.clone(), invoke: i0, ret: i1, stamp });
                    shuttle::thread::yield_now();
                }
            })
            .expect("spawn producer");
        hs.push(h);
    }
    for h in hs {
        if h.join().is_err() {
            e.out.violate("C02", "producer_panic", "a producer thread panicked".into());
        }
    }
    match Arc::try_unwrap(w) {
        Ok(w) => e.writer = Some(w),
        Err(_) => {
            e.out.harness_error = Some("HARNESS: writer still shared after joining producers".into());
            return;
        }
    }
    if let Some(x) = failed.lock().unwrap().first() {
        e.out.violate("C02", "api_error_without_fault", format!("producer call failed: {x}"));
        return;
    }
    let recs: Vec<ProdRec> = recs.lock().unwrap().clone();
    e.out.probe("producer_histories");
    for r in &recs {
        match &r.op {
            ProdOp::Add(d) => {
                e.specs.insert(d.uid, d.clone());
            }
            ProdOp::Batch(b) => {
                for o in b {
                    if let BatchOp::Add(d) = o {
                        e.specs.insert(d.uid, d.clone());
                    }
                }
            }
            _ => {}
        }
    }
    // commit, read back, and look for a linearization that explains what was committed
    let Some(w) = e.writer.as_mut() else { return };
    let idx = e.commit_events.len();
    e.dir.mark(simdir::Mark::CommitStart(idx));
    let start_seq = e.dir.op_count();
    let res = catch(|| w.commit());
    let end_seq = e.dir.op_count();
    let stamp = match res {
        Err(p) => {
            e.out.violate("C02", "panic_on_calling_thread", format!("commit: {p}"));
            return;
        }
        Ok(Err(x)) => {
            e.out.violate("C02", "api_error_without_fault", format!("commit: {x}"));
            return;
        }
        Ok(Ok(s)) => s,
    };
    let observed = match dump::dump_index(&e.index, &e.fields) {
        Ok(d) => d,
        Err(x) => {
            e.out.violate("C02", "dump_error", x.to_string());
            return;
        }
    };
    // the commit's opstamp is larger than that of every operation it includes
    if let Some(r) = recs.iter().filter(|r| r.stamp.map(|st| st >= stamp).unwrap_or(false)).next() {
        e.out.violate(
            "C02",
            "commit_opstamp_not_above_ops",
            format!("commit returned {stamp}, a concurrent producer call (thread {}) that returned before it got {:?}", r.thread, r.stamp),
        );
        return;
    }
    let base = e.model.live.clone();
    match linearize(&base, &recs, &observed, &e.fields) {
        Some(live) => {
            e.model.live = live;
            let m = e.model.commit(Some(stamp), None);
            e.dir.mark(simdir::Mark::CommitEnd(idx, true));
            e.commit_events.push(exec::CommitEvent { start_seq, end_seq, model_before: m - 1, model_after: Some(m), ok: true });
            e.out.commits_ok += 1;
            e.last_stamp = Some(stamp);
            e.txn_ops = 0;
        }
        None => {
            let mut h = recs.clone();
            h.sort_by_key(|r| r.invoke);
            e.out.violate(
                "C02",
                "not_linearizable",
                format!(
                    "committed uids {:?} are not the effect of any order of the concurrent calls consistent with real time; before: {:?}; calls: {:?}",
                    observed.uids(),
                    model::uids(&base),
                    h.iter().map(|r| format!("t{}[{}..{}]{}", r.thread, r.invoke, r.ret, match &r.op { ProdOp::Add(d) => format!("Add(uid={},key={})", d.uid, d.key), ProdOp::DeleteKey(k) => format!("Del(key={k})"), ProdOp::Batch(b) => format!("Batch{:?}", b.iter().map(|o| match o { BatchOp::Add(d) => format!("Add(uid={},key={})", d.uid, d.key), BatchOp::Delete(k) => format!("Del(key={k})") }).collect::<Vec<_>>()) })).collect::<Vec<_>>()
                ),
            );
        }
    }
}

/// Search a total order of `recs` consistent with per-thread order and real-time precedence
/// (a.ret < b.invoke => a before b) whose sequential effect on `base` is `observed`.
fn linearize(base: &[DocSpec], recs: &[ProdRec], observed: &dump::Dump, f: &Fields) -> Option<Vec<DocSpec>> {
    let mut per: BTreeMap<usize, Vec<&ProdRec>> = BTreeMap::new();
    for r in recs {
        per.entry(r.thread).or_default().push(r);
    }
    let threads: Vec<Vec<&ProdRec>> = per.into_values().collect();
    let mut pos = vec![0usize; threads.len()];
    let mut live: Vec<DocSpec> = base.to_vec();
    let mut seen: BTreeSet<(Vec<usize>, Vec<u64>)> = BTreeSet::new();
    fn rec<'a>(
        threads: &[Vec<&'a ProdRec>],
        pos: &mut Vec<usize>,
        live: &mut Vec<DocSpec>,
        seen: &mut BTreeSet<(Vec<usize>, Vec<u64>)>,
        observed: &dump::Dump,
        f: &Fields,
    ) -> Option<Vec<DocSpec>> {
        let key = (pos.clone(), model::uids(live));
        if !seen.insert(key) {
            return None;
        }
        if pos.iter().enumerate().all(|(t, p)| *p == threads[t].len()) {
            return if exec::compare(observed, live, f).is_ok() { Some(live.clone()) } else { None };
        }
        for t in 0..threads.len() {
            if pos[t] == threads[t].len() {
                continue;
            }
            let cand = threads[t][pos[t]];
            // real-time: no other pending op returned before cand was invoked
            let mut ok = true;
            for (u, th) in threads.iter().enumerate() {
                if u != t && pos[u] < th.len() && th[pos[u]].ret < cand.invoke {
                    ok = false;
                    break;
                }
            }
            if !ok {
                continue;
            }
            let saved = live.clone();
            match &cand.op {
                ProdOp::Add(d) => live.push(d.clone()),
                ProdOp::DeleteKey(k) => live.retain(|d| !DelSpec::Key(*k).matches(d)),
                ProdOp::Batch(b) => {
                    for o in b {
                        match o {
                            BatchOp::Add(d) => live.push(d.clone()),
                            BatchOp::Delete(k) => live.retain(|d| !DelSpec::Key(*k).matches(d)),
                        }
                    }
                }
            }
            pos[t] += 1;
            if let Some(r) = rec(threads, pos, live, seen, observed, f) {
                return Some(r);
            }
            pos[t] -= 1;
            *live = saved;
        }
        None
    }
    rec(&threads, &mut pos, &mut live, &mut seen, observed, f)
}

pub fn exec_special4(e: &mut Exec, op: &Op) {
    match op {
        Op::Reload(_) | Op::Hold(_) | Op::Recheck => main_reader_op(e, op),
        Op::CreateWriter { .. } | Op::NewWriterAttempt { .. } | Op::DropWriter | Op::RaceCreate { .. } | Op::KillWorker | Op::FaultyRollback | Op::WaitMergesRace | Op::DropRace => lock_op(e, op),
        Op::Fork(ps) => fork_op(e, ps),
        _ => {}
    }
}

#[allow(dead_code)]
fn unused(_: &dyn Directory, _: &Path) {}
