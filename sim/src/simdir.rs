//! `SimDirectory`: the simulated disk behind tantivy's `Directory` trait.
//!
//! * separates *visible* from *durable* state (data durable at `terminate`, names durable at
//!   `sync_directory`), records the full history of every inode and of the namespace so that the
//!   durable image at ANY boundary between two storage operations can be reconstructed after
//!   the run (`image_at`),
//! * injects faults (I/O error once / from k on / ENOSPC, torn + short writes, EINTR, lazy
//!   read errors),
//! * logs every operation with the issuing task (event log + hash for the determinism check),
//! * every operation takes a shuttle mutex, hence is a scheduling point.

use crate::rng::{hash_bytes, Rng};
use serde::{Deserialize, Serialize};
use shuttle::sync::{Condvar, Mutex};
use std::collections::{BTreeMap, BTreeSet};
use std::io::{self, Write};
use std::ops::Range;
use std::path::{Path, PathBuf};
use std::sync::Arc;
use tantivy::directory::error::{DeleteError, LockError, OpenReadError, OpenWriteError};
use tantivy::directory::{
    AntiCallToken, Directory, DirectoryLock, FileHandle, Lock, OwnedBytes, TerminatingWrite,
    WatchCallback, WatchCallbackList, WatchHandle, WritePtr,
};
use tantivy::HasLen;

pub type InodeId = usize;

#[derive(Clone, Copy, Debug, PartialEq, Eq, PartialOrd, Ord, Hash, Serialize, Deserialize)]
pub enum OpKind {
    Create,
    Write,
    Flush,
    Terminate,
    AtomicWrite,
    AtomicRead,
    OpenRead,
    ReadBytes,
    Exists,
    Delete,
    SyncDir,
    Lock,
    Unlock,
}

pub const ALL_KINDS: [OpKind; 13] = [
    OpKind::Create,
    OpKind::Write,
    OpKind::Flush,
    OpKind::Terminate,
    OpKind::AtomicWrite,
    OpKind::AtomicRead,
    OpKind::OpenRead,
    OpKind::ReadBytes,
    OpKind::Exists,
    OpKind::Delete,
    OpKind::SyncDir,
    OpKind::Lock,
    OpKind::Unlock,
];

#[derive(Clone, Debug, Serialize, Deserialize, PartialEq)]
pub enum FailMode {
    /// the op with this sequence number fails once
    Once,
    /// every op from this sequence number on fails
    FromOn,
    /// from this sequence number on, operations that need space fail; reads and deletes work
    Enospc,
}

#[derive(Clone, Debug, Serialize, Deserialize, PartialEq)]
pub struct FailSpec {
    pub at: u64,
    pub mode: FailMode,
}

#[derive(Clone, Debug, Default, Serialize, Deserialize, PartialEq)]
pub struct FaultPlan {
    pub fails: Vec<FailSpec>,
    /// per `write` call, in percent
    pub short_write_pct: u32,
    pub eintr_pct: u32,
    /// a failing write may have stored a prefix of the buffer (torn write)
    pub torn: bool,
    /// hand out lazy file handles whose `read_bytes` is an operation (and can fail)
    pub lazy_reads: bool,
    pub seed: u64,
}

#[derive(Clone, Debug)]
pub enum NsOp {
    Link(PathBuf, InodeId),
    Unlink(PathBuf),
}

#[derive(Clone, Debug)]
pub struct Inode {
    pub data: Vec<u8>,
    /// (op seq, length after the op)
    pub appends: Vec<(u64, usize)>,
    /// (op seq, synced length after the op)
    pub syncs: Vec<(u64, usize)>,
    pub created_seq: u64,
    /// created by `atomic_write` (a rename of a synced temporary file)
    pub atomic: bool,
}

#[derive(Clone, Debug)]
pub struct OpRecord {
    pub seq: u64,
    pub step: u64,
    pub task: u16,
    pub kind: OpKind,
    pub path: u32,
    pub len: u32,
    /// 0 ok, 1 injected error, 2 natural error (not found / exists / busy), 3 short, 4 eintr
    pub outcome: u8,
}

#[derive(Clone, Debug, PartialEq, Eq)]
pub enum Mark {
    CommitStart(usize),
    CommitEnd(usize, bool),
    Note(String),
}

#[derive(Default, Clone, Debug)]
pub struct Stats {
    pub ops_by_kind: BTreeMap<OpKind, u64>,
    pub faults_fired: BTreeMap<String, u64>,
    pub notfound_reads: Vec<(u64, String, String)>,
}

pub struct State {
    pub inodes: Vec<Inode>,
    pub visible: BTreeMap<PathBuf, InodeId>,
    pub ns_log: Vec<(u64, NsOp)>,
    pub dir_syncs: Vec<u64>,
    pub op_seq: u64,
    pub log: Vec<OpRecord>,
    pub log_hash: u64,
    pub tasks: Vec<String>,
    pub paths: Vec<PathBuf>,
    pub path_ids: BTreeMap<PathBuf, u32>,
    pub marks: Vec<(u64, u64, Mark)>,
    pub plan: FaultPlan,
    pub armed: bool,
    pub frng: Rng,
    pub stats: Stats,
    pub locks: BTreeSet<PathBuf>,
    pub sim_time_us: u64,
    /// paths whose `delete` was made to fail by a fault
    pub failed_deletes: BTreeSet<PathBuf>,
    /// fault-injection first fired at this op (for the report)
    pub first_fault_at: Option<(u64, OpKind, String, String)>,
    pub keep_log: bool,
}

pub struct Inner {
    pub st: Mutex<State>,
    pub lock_cv: Condvar,
    pub watch: WatchCallbackList,
    /// true: harness flock-like lock; false: tantivy's default file based lock
    pub flock: bool,
}

#[derive(Clone)]
pub struct SimDir {
    pub inner: Arc<Inner>,
}

/// Same storage, but `acquire_lock` is NOT overridden: tantivy's default file-based lock runs.
#[derive(Clone)]
pub struct SimDirFileLock(pub SimDir);

impl std::fmt::Debug for SimDir {
    fn fmt(&self, f: &mut std::fmt::Formatter<'_>) -> std::fmt::Result {
        write!(f, "SimDir")
    }
}
impl std::fmt::Debug for SimDirFileLock {
    fn fmt(&self, f: &mut std::fmt::Formatter<'_>) -> std::fmt::Result {
        write!(f, "SimDirFileLock")
    }
}

fn sim_err(what: &str) -> io::Error {
    io::Error::other(format!("simulated I/O error ({what})"))
}

fn is_lock_file(p: &Path) -> bool {
    p.to_str().map(|s| s.starts_with(".tantivy-") && s.ends_with(".lock")).unwrap_or(false)
}

fn op_cost_us(kind: OpKind) -> u64 {
    match kind {
        OpKind::Write => 50,
        OpKind::Terminate | OpKind::SyncDir => 2000,
        OpKind::AtomicWrite => 2100,
        OpKind::Delete | OpKind::Create => 100,
        _ => 10,
    }
}

pub fn task_name() -> String {
    let t = shuttle::thread::current();
    let id: usize = t.id().into();
    format!("{}#{}", t.name().unwrap_or("main"), id)
}

impl State {
    fn path_id(&mut self, p: &Path) -> u32 {
        if let Some(i) = self.path_ids.get(p) {
            return *i;
        }
        let i = self.paths.len() as u32;
        self.paths.push(p.to_path_buf());
        self.path_ids.insert(p.to_path_buf(), i);
        i
    }
    fn task_id(&mut self, name: &str) -> u16 {
        if let Some(i) = self.tasks.iter().position(|t| t == name) {
            return i as u16;
        }
        self.tasks.push(name.to_string());
        (self.tasks.len() - 1) as u16
    }

    /// Begin an operation: assigns the sequence number and decides whether a failing fault fires.
    /// Returns (seq, fault_fires).
    fn begin(&mut self, kind: OpKind, path: &Path) -> (u64, bool) {
        let seq = self.op_seq;
        self.op_seq += 1;
        *self.stats.ops_by_kind.entry(kind).or_insert(0) += 1;
        self.sim_time_us += op_cost_us(kind);
        let mut fires = false;
        if self.armed && kind != OpKind::Unlock {
            for f in &self.plan.fails {
                let hit = match f.mode {
                    FailMode::Once => f.at == seq,
                    FailMode::FromOn => seq >= f.at,
                    FailMode::Enospc => {
                        seq >= f.at && matches!(kind, OpKind::Create | OpKind::Write | OpKind::AtomicWrite)
                    }
                };
                if hit {
                    fires = true;
                    let name = match f.mode {
                        FailMode::Once => "io_error_once",
                        FailMode::FromOn => "io_error_from_k_on",
                        FailMode::Enospc => "enospc",
                    };
                    *self.stats.faults_fired.entry(name.to_string()).or_insert(0) += 1;
                    *self.stats.faults_fired.entry(format!("fail@{kind:?}")).or_insert(0) += 1;
                }
            }
            // a lock file that cannot be removed is the documented stale-lock caveat of file
            // locks, not something the properties can demand away: never fail that delete.
            if fires && kind == OpKind::Delete && is_lock_file(path) {
                fires = false;
            }
            if fires && self.first_fault_at.is_none() {
                let t = task_name();
                self.first_fault_at = Some((seq, kind, path.display().to_string(), t));
            }
        }
        (seq, fires)
    }

    fn end(&mut self, seq: u64, kind: OpKind, path: &Path, len: usize, outcome: u8) {
        let tn = task_name();
        let task = self.task_id(&tn);
        let pid = self.path_id(path);
        let step = crate::sched::step();
        let mut h = self.log_hash;
        h = hash_bytes(h, tn.as_bytes());
        h = hash_bytes(h, &[kind as u8, outcome]);
        h = hash_bytes(h, path.to_string_lossy().as_bytes());
        h = hash_bytes(h, &(len as u64).to_le_bytes());
        self.log_hash = h;
        if self.keep_log {
            self.log.push(OpRecord { seq, step, task, kind, path: pid, len: len as u32, outcome });
        }
    }

    fn new_inode(&mut self, seq: u64) -> InodeId {
        self.inodes.push(Inode { data: vec![], appends: vec![], syncs: vec![], created_seq: seq, atomic: false });
        self.inodes.len() - 1
    }
}

/// One recovered crash image: path -> content.
pub type Image = BTreeMap<PathBuf, Vec<u8>>;

#[derive(Clone, Copy, Debug, PartialEq, Eq, Serialize, Deserialize)]
pub enum TailMode {
    /// un-synced namespace ops not applied, un-synced data lost
    Minimal,
    /// everything issued so far is present
    Maximal,
    /// seeded: a prefix of the un-synced namespace ops, each un-synced tail lost / cut / present
    Random(u64),
    /// un-synced atomic replacements (renames) applied, un-synced plain creations and unlinks not;
    /// un-synced data lost
    RenamesOnly,
    /// seeded: an arbitrary subset of the un-synced namespace ops (each applied or not, in issue
    /// order), each un-synced tail lost / cut / present
    Subset(u64),
}

impl SimDir {
    pub fn new(flock: bool, plan: FaultPlan) -> SimDir {
        let seed = plan.seed;
        SimDir {
            inner: Arc::new(Inner {
                st: Mutex::new(State {
                    inodes: vec![],
                    visible: BTreeMap::new(),
                    ns_log: vec![],
                    dir_syncs: vec![],
                    op_seq: 0,
                    log: vec![],
                    log_hash: 0,
                    tasks: vec![],
                    paths: vec![],
                    path_ids: BTreeMap::new(),
                    marks: vec![],
                    plan,
                    armed: false,
                    frng: Rng::new(seed ^ 0x5151),
                    stats: Stats::default(),
                    locks: BTreeSet::new(),
                    sim_time_us: 0,
                    failed_deletes: BTreeSet::new(),
                    first_fault_at: None,
                    keep_log: true,
                }),
                lock_cv: Condvar::new(),
                watch: WatchCallbackList::default(),
                flock,
            }),
        }
    }

    /// A fresh, fully durable directory holding `image`.
    pub fn from_image(image: &Image, flock: bool) -> SimDir {
        let d = SimDir::new(flock, FaultPlan::default());
        {
            let mut st = d.inner.st.lock().unwrap();
            st.keep_log = false;
            for (p, data) in image {
                let id = st.new_inode(0);
                st.inodes[id].data = data.clone();
                st.inodes[id].appends.push((0, data.len()));
                st.inodes[id].syncs.push((0, data.len()));
                st.visible.insert(p.clone(), id);
                st.ns_log.push((0, NsOp::Link(p.clone(), id)));
            }
            st.dir_syncs.push(0);
            st.op_seq = 1;
        }
        d
    }

    pub fn with<R>(&self, f: impl FnOnce(&mut State) -> R) -> R {
        let mut st = self.inner.st.lock().unwrap();
        f(&mut st)
    }

    pub fn arm(&self, on: bool) {
        self.with(|s| s.armed = on);
    }

    pub fn mark(&self, m: Mark) {
        let step = crate::sched::step();
        self.with(|s| {
            let seq = s.op_seq;
            s.marks.push((seq, step, m));
        });
    }

    pub fn op_count(&self) -> u64 {
        self.with(|s| s.op_seq)
    }

    /// Currently visible files (path -> content).
    pub fn visible_image(&self) -> Image {
        self.with(|s| {
            s.visible.iter().map(|(p, i)| (p.clone(), s.inodes[*i].data.clone())).collect()
        })
    }

    pub fn visible_paths(&self) -> BTreeSet<PathBuf> {
        self.with(|s| s.visible.keys().cloned().collect())
    }

    /// The image a crash at boundary `k` (before the op with sequence number k executes) can
    /// leave, under the given outcome for un-synced state. Lock files never survive.
    pub fn image_at(&self, k: u64, mode: TailMode) -> Image {
        self.with(|s| image_at(s, k, mode))
    }

    /// What a reader could see at boundary k (all namespace ops applied, all data present).
    pub fn visible_at(&self, k: u64) -> Image {
        self.with(|s| image_at(s, k, TailMode::Maximal))
    }

    fn do_atomic_write(&self, path: &Path, data: &[u8]) -> io::Result<()> {
        let broadcast;
        {
            let mut st = self.inner.st.lock().unwrap();
            let (seq, fires) = st.begin(OpKind::AtomicWrite, path);
            if fires {
                st.end(seq, OpKind::AtomicWrite, path, data.len(), 1);
                return Err(sim_err("atomic_write"));
            }
            let id = st.new_inode(seq);
            st.inodes[id].atomic = true;
            st.inodes[id].data = data.to_vec();
            st.inodes[id].appends.push((seq, data.len()));
            st.inodes[id].syncs.push((seq, data.len()));
            st.visible.insert(path.to_path_buf(), id);
            st.ns_log.push((seq, NsOp::Link(path.to_path_buf(), id)));
            st.end(seq, OpKind::AtomicWrite, path, data.len(), 0);
            broadcast = path == Path::new("meta.json");
        }
        if broadcast {
            drop(self.inner.watch.broadcast());
        }
        Ok(())
    }
}

fn image_at(s: &State, k: u64, mode: TailMode) -> Image {
    // namespace: ops with seq < last dir sync (< k) are durable; the rest (seq < k) pending
    let durable_upto: u64 = s.dir_syncs.iter().cloned().filter(|q| *q < k).max().map(|q| q + 0).unwrap_or(0);
    let has_sync = s.dir_syncs.iter().any(|q| *q < k);
    let mut rng = match mode {
        TailMode::Random(seed) | TailMode::Subset(seed) => Some(Rng::new(seed)),
        _ => None,
    };
    let pending: Vec<&(u64, NsOp)> = s
        .ns_log
        .iter()
        .filter(|(q, _)| *q < k && !(has_sync && *q < durable_upto))
        .collect();
    let cut = match mode {
        TailMode::Minimal => 0,
        TailMode::Maximal | TailMode::RenamesOnly | TailMode::Subset(_) => pending.len(),
        TailMode::Random(_) => rng.as_mut().unwrap().below(pending.len() as u64 + 1) as usize,
    };
    let mut ns: BTreeMap<PathBuf, InodeId> = BTreeMap::new();
    let apply = |ns: &mut BTreeMap<PathBuf, InodeId>, op: &NsOp| match op {
        NsOp::Link(p, i) => {
            ns.insert(p.clone(), *i);
        }
        NsOp::Unlink(p) => {
            ns.remove(p);
        }
    };
    for (q, op) in &s.ns_log {
        if has_sync && *q < durable_upto {
            apply(&mut ns, op);
        }
    }
    for (_, op) in pending.iter().take(cut) {
        let keep = match mode {
            TailMode::RenamesOnly => matches!(op, NsOp::Link(_, i) if s.inodes[*i].atomic),
            TailMode::Subset(_) => rng.as_mut().unwrap().chance(1, 2),
            _ => true,
        };
        if keep {
            apply(&mut ns, op);
        }
    }
    let mut img = Image::new();
    for (p, id) in ns {
        if is_lock_file(&p) {
            continue;
        }
        let ino = &s.inodes[id];
        let len = ino.appends.iter().filter(|(q, _)| *q < k).map(|(_, l)| *l).last().unwrap_or(0);
        let synced = ino.syncs.iter().filter(|(q, _)| *q < k).map(|(_, l)| *l).last().unwrap_or(0);
        let keep = match mode {
            TailMode::Minimal | TailMode::RenamesOnly => synced,
            TailMode::Maximal => len,
            TailMode::Random(_) | TailMode::Subset(_) => {
                let r = rng.as_mut().unwrap();
                if len <= synced {
                    synced
                } else {
                    match r.below(3) {
                        0 => synced,
                        1 => len,
                        _ => synced + r.below((len - synced) as u64 + 1) as usize,
                    }
                }
            }
        };
        img.insert(p, ino.data[..keep.min(ino.data.len())].to_vec());
    }
    img
}

// ------------------------------------------------------------------------------------------
// writers

struct SimWriter {
    dir: SimDir,
    inode: InodeId,
    path: PathBuf,
}

impl Write for SimWriter {
    fn write(&mut self, buf: &[u8]) -> io::Result<usize> {
        let mut st = self.dir.inner.st.lock().unwrap();
        let (seq, fires) = st.begin(OpKind::Write, &self.path);
        if buf.is_empty() {
            st.end(seq, OpKind::Write, &self.path, 0, 0);
            return Ok(0);
        }
        if fires {
            let mut stored = 0usize;
            if st.plan.torn && buf.len() > 1 && st.frng.chance(1, 2) {
                stored = st.frng.below(buf.len() as u64) as usize;
                st.inodes[self.inode].data.extend_from_slice(&buf[..stored]);
                let l = st.inodes[self.inode].data.len();
                st.inodes[self.inode].appends.push((seq, l));
                *st.stats.faults_fired.entry("torn_write".into()).or_insert(0) += 1;
            }
            st.end(seq, OpKind::Write, &self.path, stored, 1);
            return Err(sim_err("write"));
        }
        if st.armed {
            let (sw, ei) = (st.plan.short_write_pct as u64, st.plan.eintr_pct as u64);
            if ei > 0 && st.frng.below(100) < ei {
                *st.stats.faults_fired.entry("eintr".into()).or_insert(0) += 1;
                st.end(seq, OpKind::Write, &self.path, 0, 4);
                return Err(io::Error::new(io::ErrorKind::Interrupted, "simulated EINTR"));
            }
            if sw > 0 && buf.len() > 1 && st.frng.below(100) < sw {
                let n = 1 + st.frng.below(buf.len() as u64 - 1) as usize;
                st.inodes[self.inode].data.extend_from_slice(&buf[..n]);
                let l = st.inodes[self.inode].data.len();
                st.inodes[self.inode].appends.push((seq, l));
                *st.stats.faults_fired.entry("short_write".into()).or_insert(0) += 1;
                st.end(seq, OpKind::Write, &self.path, n, 3);
                return Ok(n);
            }
        }
        st.inodes[self.inode].data.extend_from_slice(buf);
        let l = st.inodes[self.inode].data.len();
        st.inodes[self.inode].appends.push((seq, l));
        st.end(seq, OpKind::Write, &self.path, buf.len(), 0);
        Ok(buf.len())
    }

    fn flush(&mut self) -> io::Result<()> {
        let mut st = self.dir.inner.st.lock().unwrap();
        let (seq, fires) = st.begin(OpKind::Flush, &self.path);
        st.end(seq, OpKind::Flush, &self.path, 0, fires as u8);
        if fires {
            return Err(sim_err("flush"));
        }
        Ok(())
    }
}

impl TerminatingWrite for SimWriter {
    fn terminate_ref(&mut self, _: AntiCallToken) -> io::Result<()> {
        let mut st = self.dir.inner.st.lock().unwrap();
        let (seq, fires) = st.begin(OpKind::Terminate, &self.path);
        if fires {
            st.end(seq, OpKind::Terminate, &self.path, 0, 1);
            return Err(sim_err("terminate"));
        }
        let l = st.inodes[self.inode].data.len();
        st.inodes[self.inode].syncs.push((seq, l));
        st.end(seq, OpKind::Terminate, &self.path, l, 0);
        Ok(())
    }
}

// ------------------------------------------------------------------------------------------
// lazy file handle (read_bytes is an operation)

struct LazyFile {
    dir: SimDir,
    path: PathBuf,
    bytes: OwnedBytes,
}

impl std::fmt::Debug for LazyFile {
    fn fmt(&self, f: &mut std::fmt::Formatter<'_>) -> std::fmt::Result {
        write!(f, "LazyFile({:?})", self.path)
    }
}
impl HasLen for LazyFile {
    fn len(&self) -> usize {
        self.bytes.len()
    }
}
impl FileHandle for LazyFile {
    fn read_bytes(&self, range: Range<usize>) -> io::Result<OwnedBytes> {
        let mut st = self.dir.inner.st.lock().unwrap();
        let (seq, fires) = st.begin(OpKind::ReadBytes, &self.path);
        st.end(seq, OpKind::ReadBytes, &self.path, range.len(), fires as u8);
        if fires {
            *st.stats.faults_fired.entry("lazy_read_error".into()).or_insert(0) += 1;
            return Err(sim_err("read_bytes"));
        }
        drop(st);
        Ok(self.bytes.slice(range))
    }
}

// ------------------------------------------------------------------------------------------
// harness-side flock-like lock

struct FlockGuard {
    dir: SimDir,
    path: PathBuf,
}

impl Drop for FlockGuard {
    fn drop(&mut self) {
        let mut st = self.dir.inner.st.lock().unwrap();
        let (seq, _) = st.begin(OpKind::Unlock, &self.path);
        st.locks.remove(&self.path);
        st.end(seq, OpKind::Unlock, &self.path, 0, 0);
        drop(st);
        self.dir.inner.lock_cv.notify_all();
    }
}

impl Directory for SimDir {
    fn get_file_handle(&self, path: &Path) -> Result<Arc<dyn FileHandle>, OpenReadError> {
        let mut st = self.inner.st.lock().unwrap();
        let (seq, fires) = st.begin(OpKind::OpenRead, path);
        if fires {
            st.end(seq, OpKind::OpenRead, path, 0, 1);
            return Err(OpenReadError::wrap_io_error(sim_err("open_read"), path.to_path_buf()));
        }
        match st.visible.get(path).cloned() {
            None => {
                st.end(seq, OpKind::OpenRead, path, 0, 2);
                let t = task_name();
                st.stats.notfound_reads.push((seq, t, path.display().to_string()));
                Err(OpenReadError::FileDoesNotExist(path.to_path_buf()))
            }
            Some(id) => {
                let data = st.inodes[id].data.clone();
                let lazy = st.plan.lazy_reads && st.armed;
                st.end(seq, OpKind::OpenRead, path, data.len(), 0);
                drop(st);
                let bytes = OwnedBytes::new(data);
                if lazy {
                    Ok(Arc::new(LazyFile { dir: self.clone(), path: path.to_path_buf(), bytes }))
                } else {
                    Ok(Arc::new(bytes))
                }
            }
        }
    }

    fn delete(&self, path: &Path) -> Result<(), DeleteError> {
        let mut st = self.inner.st.lock().unwrap();
        let (seq, fires) = st.begin(OpKind::Delete, path);
        if fires {
            st.failed_deletes.insert(path.to_path_buf());
            st.end(seq, OpKind::Delete, path, 0, 1);
            return Err(DeleteError::IoError {
                io_error: Arc::new(sim_err("delete")),
                filepath: path.to_path_buf(),
            });
        }
        if st.visible.remove(path).is_none() {
            st.end(seq, OpKind::Delete, path, 0, 2);
            return Err(DeleteError::FileDoesNotExist(path.to_path_buf()));
        }
        st.failed_deletes.remove(path);
        st.ns_log.push((seq, NsOp::Unlink(path.to_path_buf())));
        st.end(seq, OpKind::Delete, path, 0, 0);
        Ok(())
    }

    fn exists(&self, path: &Path) -> Result<bool, OpenReadError> {
        let mut st = self.inner.st.lock().unwrap();
        let (seq, fires) = st.begin(OpKind::Exists, path);
        if fires {
            st.end(seq, OpKind::Exists, path, 0, 1);
            return Err(OpenReadError::wrap_io_error(sim_err("exists"), path.to_path_buf()));
        }
        let e = st.visible.contains_key(path);
        st.end(seq, OpKind::Exists, path, e as usize, 0);
        Ok(e)
    }

    fn open_write(&self, path: &Path) -> Result<WritePtr, OpenWriteError> {
        let mut st = self.inner.st.lock().unwrap();
        let (seq, fires) = st.begin(OpKind::Create, path);
        if fires {
            st.end(seq, OpKind::Create, path, 0, 1);
            return Err(OpenWriteError::wrap_io_error(sim_err("open_write"), path.to_path_buf()));
        }
        if st.visible.contains_key(path) {
            st.end(seq, OpKind::Create, path, 0, 2);
            return Err(OpenWriteError::FileAlreadyExists(path.to_path_buf()));
        }
        let id = st.new_inode(seq);
        st.visible.insert(path.to_path_buf(), id);
        st.ns_log.push((seq, NsOp::Link(path.to_path_buf(), id)));
        st.end(seq, OpKind::Create, path, 0, 0);
        drop(st);
        let w = SimWriter { dir: self.clone(), inode: id, path: path.to_path_buf() };
        Ok(io::BufWriter::new(Box::new(w)))
    }

    fn atomic_read(&self, path: &Path) -> Result<Vec<u8>, OpenReadError> {
        let mut st = self.inner.st.lock().unwrap();
        let (seq, fires) = st.begin(OpKind::AtomicRead, path);
        if fires {
            st.end(seq, OpKind::AtomicRead, path, 0, 1);
            return Err(OpenReadError::wrap_io_error(sim_err("atomic_read"), path.to_path_buf()));
        }
        match st.visible.get(path).cloned() {
            None => {
                st.end(seq, OpKind::AtomicRead, path, 0, 2);
                let t = task_name();
                st.stats.notfound_reads.push((seq, t, path.display().to_string()));
                Err(OpenReadError::FileDoesNotExist(path.to_path_buf()))
            }
            Some(id) => {
                let data = st.inodes[id].data.clone();
                st.end(seq, OpKind::AtomicRead, path, data.len(), 0);
                Ok(data)
            }
        }
    }

    fn atomic_write(&self, path: &Path, data: &[u8]) -> io::Result<()> {
        self.do_atomic_write(path, data)
    }

    fn sync_directory(&self) -> io::Result<()> {
        let mut st = self.inner.st.lock().unwrap();
        let p = Path::new(".");
        let (seq, fires) = st.begin(OpKind::SyncDir, p);
        if fires {
            st.end(seq, OpKind::SyncDir, p, 0, 1);
            return Err(sim_err("sync_directory"));
        }
        st.dir_syncs.push(seq);
        st.end(seq, OpKind::SyncDir, p, 0, 0);
        Ok(())
    }

    fn acquire_lock(&self, lock: &Lock) -> Result<DirectoryLock, LockError> {
        let path = lock.filepath.clone();
        let mut st = self.inner.st.lock().unwrap();
        loop {
            let (seq, fires) = st.begin(OpKind::Lock, &path);
            if fires {
                st.end(seq, OpKind::Lock, &path, 0, 1);
                return Err(LockError::IoError(Arc::new(sim_err("lock"))));
            }
            if !st.locks.contains(&path) {
                st.locks.insert(path.clone());
                st.end(seq, OpKind::Lock, &path, 0, 0);
                drop(st);
                return Ok(DirectoryLock::from(Box::new(FlockGuard { dir: self.clone(), path })));
            }
            st.end(seq, OpKind::Lock, &path, 0, 2);
            if !lock.is_blocking {
                return Err(LockError::LockBusy);
            }
            // blocking flock: wait for a release
            st = self.inner.lock_cv.wait(st).unwrap();
        }
    }

    fn watch(&self, watch_callback: WatchCallback) -> tantivy::Result<WatchHandle> {
        Ok(self.inner.watch.subscribe(watch_callback))
    }
}

impl Directory for SimDirFileLock {
    fn get_file_handle(&self, path: &Path) -> Result<Arc<dyn FileHandle>, OpenReadError> {
        self.0.get_file_handle(path)
    }
    fn delete(&self, path: &Path) -> Result<(), DeleteError> {
        self.0.delete(path)
    }
    fn exists(&self, path: &Path) -> Result<bool, OpenReadError> {
        self.0.exists(path)
    }
    fn open_write(&self, path: &Path) -> Result<WritePtr, OpenWriteError> {
        self.0.open_write(path)
    }
    fn atomic_read(&self, path: &Path) -> Result<Vec<u8>, OpenReadError> {
        self.0.atomic_read(path)
    }
    fn atomic_write(&self, path: &Path, data: &[u8]) -> io::Result<()> {
        self.0.atomic_write(path, data)
    }
    fn sync_directory(&self) -> io::Result<()> {
        self.0.sync_directory()
    }
    // acquire_lock: tantivy's default implementation (lock files through open_write/delete)
    fn watch(&self, watch_callback: WatchCallback) -> tantivy::Result<WatchHandle> {
        self.0.watch(watch_callback)
    }
}

/// Either flavour, as a boxed `Directory`.
pub fn boxed(dir: &SimDir) -> Box<dyn Directory> {
    if dir.inner.flock {
        Box::new(dir.clone())
    } else {
        Box::new(SimDirFileLock(dir.clone()))
    }
}

pub fn image_hash(img: &Image) -> u64 {
    let mut h = 0u64;
    for (p, d) in img {
        h = hash_bytes(h, p.to_string_lossy().as_bytes());
        h = hash_bytes(h, &(d.len() as u64).to_le_bytes());
        h = hash_bytes(h, d);
    }
    h
}
