//! Reading an index back into logical records ("dump"), through the public reader API.

use crate::model::{Fields, Record, SortTy};
use std::collections::BTreeMap;
use tantivy::postings::Postings;
use tantivy::schema::document::Document;
use tantivy::schema::{IndexRecordOption, OwnedValue, Schema};
use tantivy::{DocSet, Index, Searcher, SegmentReader, TantivyDocument, TERMINATED};

#[derive(Clone, Debug)]
pub struct SegDump {
    pub segment: String,
    pub max_doc: u32,
    pub num_deleted: u32,
    /// alive docs in doc-id order
    pub docs: Vec<(u32, Record)>,
}

#[derive(Clone, Debug)]
pub struct Dump {
    pub segments: Vec<SegDump>,
}

impl Dump {
    pub fn uids(&self) -> Vec<u64> {
        let mut v: Vec<u64> =
            self.segments.iter().flat_map(|s| s.docs.iter().map(|(_, r)| r.uid)).collect();
        v.sort();
        v
    }
    pub fn records(&self) -> Vec<&Record> {
        self.segments.iter().flat_map(|s| s.docs.iter().map(|(_, r)| r)).collect()
    }
}

fn hex(b: &[u8]) -> String {
    b.iter().map(|x| format!("{x:02x}")).collect()
}

fn render_value(v: &OwnedValue) -> String {
    match v {
        OwnedValue::Null => "null".into(),
        OwnedValue::Str(s) => format!("{s:?}"),
        OwnedValue::U64(n) => n.to_string(),
        OwnedValue::I64(n) => format!("i{n}"),
        OwnedValue::F64(x) => format!("f{x:?}"),
        OwnedValue::Bool(b) => b.to_string(),
        OwnedValue::Bytes(b) => format!("x{}", hex(b)),
        OwnedValue::Array(a) => format!("[{}]", a.iter().map(render_value).collect::<Vec<_>>().join(",")),
        OwnedValue::Object(o) => format!(
            "{{{}}}",
            o.iter().map(|(k, v)| format!("{k}:{}", render_value(v))).collect::<Vec<_>>().join(",")
        ),
        other => format!("{other:?}"),
    }
}

pub fn stored_canon(doc: &TantivyDocument, schema: &Schema) -> String {
    let named = doc.to_named_doc(schema);
    let mut out: Vec<String> = vec![];
    for name in ["uid", "key", "body", "tag", "sortv", "js"] {
        if let Some(vals) = named.0.get(name) {
            if vals.len() == 1 {
                out.push(format!("{name}:{}", render_value(&vals[0])));
            } else {
                out.push(format!(
                    "{name}:[{}]",
                    vals.iter().map(render_value).collect::<Vec<_>>().join(",")
                ));
            }
        }
    }
    for (k, v) in &named.0 {
        if !["uid", "key", "body", "tag", "sortv", "js"].contains(&k.as_str()) {
            out.push(format!("UNEXPECTED {k}:{v:?}"));
        }
    }
    out.join(";")
}

fn one<T: std::fmt::Debug>(vals: Vec<T>, render: impl Fn(&T) -> String) -> String {
    match vals.len() {
        0 => "none".to_string(),
        1 => render(&vals[0]),
        _ => format!("MULTI{vals:?}"),
    }
}

pub fn dump_segment(sr: &SegmentReader, f: &Fields, schema: &Schema) -> tantivy::Result<SegDump> {
    let max_doc = sr.max_doc();
    let mut recs: Vec<Option<BTreeMap<String, String>>> = (0..max_doc)
        .map(|d| if sr.is_deleted(d) { None } else { Some(BTreeMap::new()) })
        .collect();
    let mut uids: Vec<u64> = vec![0; max_doc as usize];
    // fast fields
    let ff = sr.fast_fields();
    let uid_col = ff.u64("uid")?;
    let key_col = ff.u64("key")?;
    for d in 0..max_doc {
        let Some(r) = recs[d as usize].as_mut() else { continue };
        let u: Vec<u64> = uid_col.values_for_doc(d).collect();
        uids[d as usize] = u.first().cloned().unwrap_or(u64::MAX);
        r.insert("fast.uid".into(), one(u, |x| x.to_string()));
        r.insert("fast.key".into(), one(key_col.values_for_doc(d).collect(), |x: &u64| x.to_string()));
    }
    match f.sort_ty {
        SortTy::U64 => {
            let c = ff.u64("sortv")?;
            for d in 0..max_doc {
                if let Some(r) = recs[d as usize].as_mut() {
                    r.insert("fast.sortv".into(), one(c.values_for_doc(d).collect(), |x: &u64| x.to_string()));
                }
            }
        }
        SortTy::I64 => {
            let c = ff.i64("sortv")?;
            for d in 0..max_doc {
                if let Some(r) = recs[d as usize].as_mut() {
                    r.insert("fast.sortv".into(), one(c.values_for_doc(d).collect(), |x: &i64| x.to_string()));
                }
            }
        }
        SortTy::F64 => {
            let c = ff.f64("sortv")?;
            for d in 0..max_doc {
                if let Some(r) = recs[d as usize].as_mut() {
                    r.insert(
                        "fast.sortv".into(),
                        one(c.values_for_doc(d).collect(), |x: &f64| format!("{:?}", x.to_bits())),
                    );
                }
            }
        }
        SortTy::Date => {
            let c = ff.date("sortv")?;
            for d in 0..max_doc {
                if let Some(r) = recs[d as usize].as_mut() {
                    r.insert(
                        "fast.sortv".into(),
                        one(c.values_for_doc(d).collect(), |x: &tantivy::DateTime| {
                            x.into_timestamp_nanos().to_string()
                        }),
                    );
                }
            }
        }
        SortTy::Str => {
            let c = ff.str("sortv")?;
            for d in 0..max_doc {
                if let Some(r) = recs[d as usize].as_mut() {
                    let v = match &c {
                        None => "none".to_string(),
                        Some(col) => {
                            let ords: Vec<u64> = col.term_ords(d).collect();
                            let mut vals = vec![];
                            for o in ords {
                                let mut s = String::new();
                                col.ord_to_str(o, &mut s)?;
                                vals.push(s);
                            }
                            one(vals, |x: &String| format!("{x:?}"))
                        }
                    };
                    r.insert("fast.sortv".into(), v);
                }
            }
        }
        SortTy::Bytes => {
            let c = ff.bytes("sortv")?;
            for d in 0..max_doc {
                if let Some(r) = recs[d as usize].as_mut() {
                    let v = match &c {
                        None => "none".to_string(),
                        Some(col) => {
                            let ords: Vec<u64> = col.term_ords(d).collect();
                            let mut vals = vec![];
                            for o in ords {
                                let mut b = Vec::new();
                                col.ord_to_bytes(o, &mut b)?;
                                vals.push(b);
                            }
                            one(vals, |x: &Vec<u8>| hex(x))
                        }
                    };
                    r.insert("fast.sortv".into(), v);
                }
            }
        }
    }
    // stored
    let store = sr.get_store_reader(4)?;
    for d in 0..max_doc {
        if let Some(r) = recs[d as usize].as_mut() {
            let doc: TantivyDocument = store.get(d)?;
            r.insert("stored".into(), stored_canon(&doc, schema));
        }
    }
    // field norms
    let norms = sr.get_fieldnorms_reader(f.body)?;
    for d in 0..max_doc {
        if let Some(r) = recs[d as usize].as_mut() {
            r.insert("norm.body".into(), norms.fieldnorm(d).to_string());
        }
    }
    // postings
    let mut terms: Vec<BTreeMap<String, String>> = vec![BTreeMap::new(); max_doc as usize];
    let mut indexed = vec![("uid", f.uid), ("key", f.key), ("tag", f.tag), ("body", f.body), ("tw", f.tw), ("js", f.js)];
    if f.sort_ty == SortTy::Str {
        indexed.push(("sortv", f.sortv));
    }
    for (name, field) in indexed {
        let inv = sr.inverted_index(field)?;
        let mut stream = inv.terms().stream()?;
        while stream.advance() {
            let k = hex(stream.key());
            let ti = stream.value().clone();
            let mut p = inv.read_postings_from_terminfo(&ti, IndexRecordOption::WithFreqsAndPositions)?;
            let mut last: Option<u32> = None;
            let mut n = 0u32;
            while p.doc() != TERMINATED {
                let d = p.doc();
                if let Some(l) = last {
                    if d <= l {
                        return Err(tantivy::TantivyError::InternalError(format!(
                            "postings not increasing for {name}/{k}"
                        )));
                    }
                }
                last = Some(d);
                n += 1;
                if d >= max_doc {
                    return Err(tantivy::TantivyError::InternalError(format!(
                        "posting doc {d} >= max_doc {max_doc} for {name}/{k}"
                    )));
                }
                let tf = p.term_freq();
                let v = if name == "body" {
                    let mut pos = vec![];
                    p.positions(&mut pos);
                    format!("tf{tf}@{pos:?}")
                } else {
                    format!("tf{tf}")
                };
                terms[d as usize].insert(format!("{name}/{k}"), v);
                p.advance();
            }
            if n != ti.doc_freq {
                return Err(tantivy::TantivyError::InternalError(format!(
                    "doc_freq {} != postings length {n} for {name}/{k}",
                    ti.doc_freq
                )));
            }
        }
    }
    let mut docs = vec![];
    for d in 0..max_doc {
        if let Some(mut r) = recs[d as usize].take() {
            let t = terms[d as usize].iter().map(|(k, v)| format!("{k}:{v}")).collect::<Vec<_>>().join(",");
            r.insert("terms".into(), t);
            docs.push((d, Record { uid: uids[d as usize], parts: r }));
        }
    }
    Ok(SegDump {
        segment: sr.segment_id().uuid_string(),
        max_doc,
        num_deleted: sr.num_deleted_docs(),
        docs,
    })
}

pub fn dump_searcher(searcher: &Searcher, f: &Fields) -> tantivy::Result<Dump> {
    let schema = searcher.schema().clone();
    let mut segments = vec![];
    for sr in searcher.segment_readers() {
        segments.push(dump_segment(sr, f, &schema)?);
    }
    Ok(Dump { segments })
}

/// Dump through a fresh manual reader.
pub fn dump_index(index: &Index, f: &Fields) -> tantivy::Result<Dump> {
    let reader = index.reader_builder().reload_policy(tantivy::ReloadPolicy::Manual).try_into()?;
    let searcher = reader.searcher();
    dump_searcher(&searcher, f)
}

/// A cheap fingerprint of a searcher (C05): ids, stored docs, fast values, a few query counts.
pub fn fingerprint(searcher: &Searcher, f: &Fields) -> tantivy::Result<String> {
    use tantivy::collector::Count;
    use tantivy::query::{AllQuery, TermQuery};
    let mut s = String::new();
    let d = dump_searcher(searcher, f)?;
    for seg in &d.segments {
        s.push_str(&format!("[{} max_doc={} del={}]", seg.segment, seg.max_doc, seg.num_deleted));
        for (id, r) in &seg.docs {
            s.push_str(&format!("({id}:{})", r.canon()));
        }
    }
    s.push_str(&format!(" all={}", searcher.search(&AllQuery, &Count)?));
    for k in 0..3u64 {
        let q = TermQuery::new(tantivy::Term::from_field_u64(f.key, k), IndexRecordOption::Basic);
        s.push_str(&format!(" key{k}={}", searcher.search(&q, &Count)?));
    }
    for w in ["ant", "dog"] {
        let q = TermQuery::new(tantivy::Term::from_field_text(f.body, w), IndexRecordOption::WithFreqs);
        s.push_str(&format!(" {w}={}", searcher.search(&q, &Count)?));
    }
    s.push_str(&format!(" num_docs={}", searcher.num_docs()));
    Ok(s)
}
