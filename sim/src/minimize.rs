//! Minimisation of a violating case: shrink operations, configuration, faults and schedule while
//! the same oracle keeps firing; then record the schedule of the final case for exact replay.

use crate::exec::RunOut;
use crate::runner::run_case;
use crate::sched::Strategy;
use crate::workload::*;
use std::time::Instant;

pub struct Minimizer {
    pub prop: &'static str,
    pub vprop: String,
    pub oracle: String,
    pub execs: u64,
    pub t0: Instant,
    pub max_execs: u64,
    pub max_secs: f64,
}

impl Minimizer {
    fn hit(&self, out: &RunOut) -> bool {
        out.violations.iter().any(|v| v.prop == self.vprop && v.oracle == self.oracle)
    }

    fn exhausted(&self) -> bool {
        self.execs >= self.max_execs || self.t0.elapsed().as_secs_f64() > self.max_secs
    }

    /// Does `case` (possibly under another schedule) still violate? Returns the failing variant.
    pub fn fails(&mut self, case: &Case, search: u32) -> Option<(Case, RunOut)> {
        if self.exhausted() {
            return None;
        }
        self.execs += 1;
        let out = run_case(self.prop, case);
        if self.hit(&out) {
            return Some((case.clone(), out));
        }
        // the recorded schedule no longer applies to a changed case: re-search, simplest first
        let mut k = 0u64;
        let strategies = [
            Strategy::RoundRobin,
            Strategy::Pct { depth: 1, est_steps: 1000 },
            Strategy::Pct { depth: 2, est_steps: 2000 },
            Strategy::Burst { keep: 90 },
            Strategy::Random,
            Strategy::Pct { depth: 3, est_steps: 4000 },
        ];
        while (k as u32) < search && !self.exhausted() {
            let mut c = case.clone();
            c.cfg.strategy = strategies[(k as usize) % strategies.len()].clone();
            c.cfg.sched_seed = crate::rng::derive(case.cfg.sched_seed, &[k + 1]);
            self.execs += 1;
            let out = run_case(self.prop, &c);
            if self.hit(&out) {
                return Some((c, out));
            }
            k += 1;
        }
        None
    }

    pub fn minimise(&mut self, start: Case, search: u32) -> Option<(Case, RunOut)> {
        let (mut best, mut best_out) = self.fails(&start, search)?;
        // 1. delta-debug the operation list
        let mut chunk = (best.ops.len() / 2).max(1);
        while chunk >= 1 && !self.exhausted() {
            let mut i = 0;
            let mut progressed = false;
            while i < best.ops.len() && !self.exhausted() {
                let mut cand = best.clone();
                let end = (i + chunk).min(cand.ops.len());
                cand.ops.drain(i..end);
                if cand.ops.is_empty() {
                    i += chunk;
                    continue;
                }
                if let Some((c, o)) = self.fails(&cand, search) {
                    best = c;
                    best_out = o;
                    progressed = true;
                } else {
                    i += chunk;
                }
            }
            if chunk == 1 && !progressed {
                break;
            }
            if !progressed || chunk > 1 {
                chunk = if chunk == 1 { 1 } else { chunk / 2 };
            }
        }
        // 2. simplify single operations
        let mut i = 0;
        while i < best.ops.len() && !self.exhausted() {
            let mut variants: Vec<Vec<Op>> = vec![];
            match &best.ops[i] {
                Op::Batch(b) => {
                    let flat: Vec<Op> = b
                        .iter()
                        .map(|o| match o {
                            BatchOp::Add(d) => Op::Add(d.clone()),
                            BatchOp::Delete(k) => Op::Delete(crate::model::DelSpec::Key(*k)),
                        })
                        .collect();
                    variants.push(flat);
                }
                Op::PrepareCommit { commit: true, .. } => variants.push(vec![Op::Commit]),
                Op::PrepareCommit { commit: false, .. } => variants.push(vec![Op::Rollback]),
                Op::Add(d) => {
                    if d.body.len() > 1 || d.js != 0 || d.sortv.is_some() {
                        let mut d2 = d.clone();
                        d2.body.truncate(1);
                        d2.js = 0;
                        variants.push(vec![Op::Add(d2.clone())]);
                        d2.sortv = None;
                        variants.push(vec![Op::Add(d2)]);
                    }
                }
                Op::Merge { sel, wait: false } => variants.push(vec![Op::Merge { sel: *sel, wait: true }]),
                Op::Fork(ps) if ps.len() > 1 => {
                    for k in 0..ps.len() {
                        let mut p2 = ps.clone();
                        p2.remove(k);
                        variants.push(vec![Op::Fork(p2)]);
                    }
                }
                _ => {}
            }
            let mut replaced = false;
            for v in variants {
                let mut cand = best.clone();
                cand.ops.splice(i..i + 1, v);
                if let Some((c, o)) = self.fails(&cand, search) {
                    best = c;
                    best_out = o;
                    replaced = true;
                    break;
                }
            }
            if !replaced {
                i += 1;
            }
        }
        // 3. simplify the configuration
        let cfg_edits: Vec<Box<dyn Fn(&mut Cfg)>> = vec![
            Box::new(|c| c.faults.fails.clear()),
            Box::new(|c| {
                c.faults.short_write_pct = 0;
                c.faults.eintr_pct = 0;
                c.faults.torn = false;
                c.faults.lazy_reads = false;
            }),
            Box::new(|c| c.index_threads = 1),
            Box::new(|c| c.merge_threads = 1),
            Box::new(|c| c.merge_policy = MergePol::NoMerge),
            Box::new(|c| c.flush_after = None),
            Box::new(|c| c.sorted = None),
            Box::new(|c| c.store_thread = false),
            Box::new(|c| c.store_lz4 = false),
            Box::new(|c| c.store_blocksize = 16384),
            Box::new(|c| c.flock = true),
            Box::new(|c| c.n_readers = c.n_readers.min(1)),
            Box::new(|c| c.second_index_reader = false),
            Box::new(|c| c.reader_on_commit = false),
            Box::new(|c| c.strategy = Strategy::RoundRobin),
            Box::new(|c| c.strategy = Strategy::Pct { depth: 1, est_steps: 1000 }),
        ];
        for e in &cfg_edits {
            if self.exhausted() {
                break;
            }
            let mut cand = best.clone();
            e(&mut cand.cfg);
            if cand.cfg == best.cfg {
                continue;
            }
            if let Some((c, o)) = self.fails(&cand, search.min(12)) {
                best = c;
                best_out = o;
            }
        }
        // drop single faults
        let mut k = 0;
        while k < best.cfg.faults.fails.len() && !self.exhausted() {
            let mut cand = best.clone();
            cand.cfg.faults.fails.remove(k);
            if let Some((c, o)) = self.fails(&cand, 4) {
                best = c;
                best_out = o;
            } else {
                k += 1;
            }
        }
        // 4. one more pass of single-op removal (configuration changes may have enabled it)
        let mut i = 0;
        while i < best.ops.len() && best.ops.len() > 1 && !self.exhausted() {
            let mut cand = best.clone();
            cand.ops.remove(i);
            if let Some((c, o)) = self.fails(&cand, search.min(12)) {
                best = c;
                best_out = o;
            } else {
                i += 1;
            }
        }
        Some((best, best_out))
    }
}
