//! Schema, generated documents, their *logical record* (what must be readable back, computed
//! without tantivy's indexing code), and the sequential reference model of the index content.

use crate::rng::Rng;
use serde::{Deserialize, Serialize};
use std::collections::BTreeMap;
use tantivy::schema::{
    BytesOptions, DateOptions, Field, JsonObjectOptions, NumericOptions, Schema, TextFieldIndexing,
    TextOptions, FAST, INDEXED, STORED, STRING, TEXT,
};
use tantivy::{DateTime, TantivyDocument, Term};

pub const VOCAB: [&str; 8] = ["ant", "bee", "cat", "dog", "eel", "fox", "gnu", "hen"];
pub const TAGS: [&str; 4] = ["red", "green", "Blue Sky", ""];

#[derive(Clone, Copy, Debug, PartialEq, Eq, Serialize, Deserialize)]
pub enum SortTy {
    U64,
    I64,
    F64,
    Date,
    Str,
    Bytes,
}
pub const SORT_TYS: [SortTy; 6] =
    [SortTy::U64, SortTy::I64, SortTy::F64, SortTy::Date, SortTy::Str, SortTy::Bytes];

/// Index into a small per-type table of sort values (with extremes and duplicates).
pub type SortIdx = u8;

#[derive(Clone, Debug)]
pub struct Fields {
    pub uid: Field,
    pub key: Field,
    pub body: Field,
    pub tag: Field,
    /// same text as `body`, indexed with frequencies but without positions
    pub tw: Field,
    pub sortv: Field,
    pub js: Field,
    pub sort_ty: SortTy,
}

pub fn build_schema(sort_ty: SortTy) -> (Schema, Fields) {
    let mut sb = Schema::builder();
    let uid = sb.add_u64_field("uid", INDEXED | STORED | FAST);
    let key = sb.add_u64_field("key", INDEXED | STORED | FAST);
    let body = sb.add_text_field("body", TEXT | STORED);
    let tag = sb.add_text_field("tag", STRING | STORED);
    let tw = sb.add_text_field(
        "tw",
        TextOptions::default().set_indexing_options(
            TextFieldIndexing::default()
                .set_tokenizer("default")
                .set_index_option(tantivy::schema::IndexRecordOption::WithFreqs),
        ),
    );
    let sortv = match sort_ty {
        SortTy::U64 => sb.add_u64_field("sortv", NumericOptions::default().set_fast()),
        SortTy::I64 => sb.add_i64_field("sortv", NumericOptions::default().set_fast()),
        SortTy::F64 => sb.add_f64_field("sortv", NumericOptions::default().set_fast()),
        SortTy::Date => sb.add_date_field("sortv", DateOptions::default().set_fast()),
        SortTy::Str => sb.add_text_field(
            "sortv",
            TextOptions::default().set_fast(None).set_indexing_options(
                TextFieldIndexing::default().set_tokenizer("raw").set_index_option(
                    tantivy::schema::IndexRecordOption::Basic,
                ),
            ),
        ),
        SortTy::Bytes => sb.add_bytes_field("sortv", BytesOptions::default().set_fast()),
    };
    // stored and indexed (raw tokenizer): numeric and string JSON terms have their own postings path
    let js = sb.add_json_field(
        "js",
        JsonObjectOptions::default().set_stored().set_indexing_options(
            TextFieldIndexing::default()
                .set_tokenizer("raw")
                .set_index_option(tantivy::schema::IndexRecordOption::Basic),
        ),
    );
    let schema = sb.build();
    (schema, Fields { uid, key, body, tag, tw, sortv, js, sort_ty })
}

pub const SORT_U64: [u64; 6] = [0, 1, 7, 7, u64::MAX - 1, u64::MAX];
pub const SORT_I64: [i64; 6] = [i64::MIN, -5, 0, 0, i64::MAX - 1, i64::MAX];
pub const SORT_F64: [f64; 6] = [f64::NEG_INFINITY, -1.5, -0.0, 0.0, 2.25, f64::INFINITY];
pub const SORT_DATE: [i64; 6] = [-86_400, 0, 1, 1, 1_700_000_000, 4_000_000_000]; // seconds
pub const SORT_STR: [&str; 6] = ["", "a", "ab", "ab", "b", "zz"];
pub const SORT_BYTES: [&[u8]; 6] = [b"", b"\x00", b"\x00\x01", b"\x00\x01", b"a", b"\xff\xff"];

/// A generated document.
#[derive(Clone, Debug, PartialEq, Eq, Serialize, Deserialize)]
pub struct DocSpec {
    pub uid: u64,
    pub key: u64,
    /// word indexes into VOCAB
    pub body: Vec<u8>,
    pub tag: u8,
    pub sortv: Option<SortIdx>,
    pub js: u8,
}

impl DocSpec {
    pub fn gen(rng: &mut Rng, uid: u64, nkeys: u64) -> DocSpec {
        let nwords = rng.range(1, 6) as usize;
        let body = (0..nwords).map(|_| rng.below(VOCAB.len() as u64) as u8).collect();
        DocSpec {
            uid,
            key: rng.below(nkeys.max(1)),
            body,
            tag: rng.below(TAGS.len() as u64) as u8,
            sortv: if rng.chance(1, 5) { None } else { Some(rng.below(6) as u8) },
            js: rng.below(4) as u8,
        }
    }

    pub fn body_text(&self) -> String {
        self.body.iter().map(|w| VOCAB[*w as usize]).collect::<Vec<_>>().join(" ")
    }

    pub fn to_tantivy(&self, f: &Fields) -> TantivyDocument {
        let mut d = TantivyDocument::default();
        d.add_u64(f.uid, self.uid);
        d.add_u64(f.key, self.key);
        d.add_text(f.body, self.body_text());
        d.add_text(f.tag, TAGS[self.tag as usize]);
        d.add_text(f.tw, self.body_text());
        if let Some(i) = self.sortv {
            let i = i as usize;
            match f.sort_ty {
                SortTy::U64 => d.add_u64(f.sortv, SORT_U64[i]),
                SortTy::I64 => d.add_i64(f.sortv, SORT_I64[i]),
                SortTy::F64 => d.add_f64(f.sortv, SORT_F64[i]),
                SortTy::Date => d.add_date(f.sortv, DateTime::from_timestamp_secs(SORT_DATE[i])),
                SortTy::Str => d.add_text(f.sortv, SORT_STR[i]),
                SortTy::Bytes => d.add_bytes(f.sortv, SORT_BYTES[i]),
            }
        }
        if self.js > 0 {
            let mut obj = BTreeMap::new();
            obj.insert("n".to_string(), tantivy::schema::OwnedValue::U64(self.js as u64));
            if self.js > 1 {
                let mut inner = BTreeMap::new();
                inner.insert(
                    "s".to_string(),
                    tantivy::schema::OwnedValue::Str(format!("v{}", self.js)),
                );
                obj.insert(
                    "o".to_string(),
                    tantivy::schema::OwnedValue::Object(inner.into_iter().collect()),
                );
            }
            d.add_object(f.js, obj);
        }
        d
    }

    /// Rank of the sort value for ordering checks: None = missing. Equal values have equal rank.
    pub fn sort_rank(&self) -> Option<u8> {
        // the tables are sorted ascending with one duplicate at index 2/3
        self.sortv.map(|i| if i >= 3 { i - 1 } else { i })
    }
}

/// The logical record of a document: everything a reader can learn about it.
#[derive(Clone, Debug, PartialEq, Eq)]
pub struct Record {
    pub uid: u64,
    /// canonical rendering of all parts, compared as a whole
    pub parts: BTreeMap<String, String>,
}

impl Record {
    pub fn canon(&self) -> String {
        let mut s = format!("uid={}", self.uid);
        for (k, v) in &self.parts {
            s.push_str(&format!(" | {k}={v}"));
        }
        s
    }
}

fn hex(b: &[u8]) -> String {
    b.iter().map(|x| format!("{x:02x}")).collect()
}

/// What must be read back for `d`: computed from the spec alone.
pub fn expected_record(d: &DocSpec, f: &Fields) -> Record {
    let mut parts = BTreeMap::new();
    // stored fields, in the canonical form produced by `dump::stored_canon`
    let mut stored = format!("uid:{};key:{};body:{:?};tag:{:?}", d.uid, d.key, d.body_text(), TAGS[d.tag as usize]);
    if d.js > 0 {
        if d.js > 1 {
            stored.push_str(&format!(";js:{{n:{},o:{{s:\"v{}\"}}}}", d.js, d.js));
        } else {
            stored.push_str(&format!(";js:{{n:{}}}", d.js));
        }
    }
    parts.insert("stored".into(), stored);
    // fast fields
    parts.insert("fast.uid".into(), d.uid.to_string());
    parts.insert("fast.key".into(), d.key.to_string());
    let sv = match d.sortv {
        None => "none".to_string(),
        Some(i) => {
            let i = i as usize;
            match f.sort_ty {
                SortTy::U64 => SORT_U64[i].to_string(),
                SortTy::I64 => SORT_I64[i].to_string(),
                SortTy::F64 => format!("{:?}", SORT_F64[i].to_bits()),
                SortTy::Date => (SORT_DATE[i] * 1_000_000_000).to_string(),
                SortTy::Str => format!("{:?}", SORT_STR[i]),
                SortTy::Bytes => hex(SORT_BYTES[i]),
            }
        }
    };
    parts.insert("fast.sortv".into(), sv);
    // field norm of body = number of tokens (exact below 40)
    parts.insert("norm.body".into(), d.body.len().to_string());
    // postings
    let mut terms: BTreeMap<String, String> = BTreeMap::new();
    terms.insert(
        format!("uid/{}", hex(Term::from_field_u64(f.uid, d.uid).serialized_value_bytes())),
        "tf1".into(),
    );
    terms.insert(
        format!("key/{}", hex(Term::from_field_u64(f.key, d.key).serialized_value_bytes())),
        "tf1".into(),
    );
    terms.insert(format!("tag/{}", hex(TAGS[d.tag as usize].as_bytes())), "tf1".into());
    let mut pos: BTreeMap<&str, Vec<u32>> = BTreeMap::new();
    for (i, w) in d.body.iter().enumerate() {
        pos.entry(VOCAB[*w as usize]).or_default().push(i as u32);
    }
    for (w, p) in pos {
        terms.insert(format!("tw/{}", hex(w.as_bytes())), format!("tf{}", p.len()));
        terms.insert(format!("body/{}", hex(w.as_bytes())), format!("tf{}@{:?}", p.len(), p));
    }
    if d.js > 0 {
        let mut t = Term::from_field_json_path(f.js, "n", false);
        t.append_type_and_fast_value::<i64>(d.js as i64);
        terms.insert(format!("js/{}", hex(t.serialized_value_bytes())), "tf1".into());
        if d.js > 1 {
            let mut t = Term::from_field_json_path(f.js, "o.s", false);
            t.append_type_and_str(&format!("v{}", d.js));
            terms.insert(format!("js/{}", hex(t.serialized_value_bytes())), "tf1".into());
        }
    }
    if f.sort_ty == SortTy::Str {
        if let Some(i) = d.sortv {
            terms.insert(format!("sortv/{}", hex(SORT_STR[i as usize].as_bytes())), "tf1".into());
        }
    }
    let t = terms.iter().map(|(k, v)| format!("{k}:{v}")).collect::<Vec<_>>().join(",");
    parts.insert("terms".into(), t);
    Record { uid: d.uid, parts }
}

// ------------------------------------------------------------------------------------------

#[derive(Clone, Debug, PartialEq, Eq, Serialize, Deserialize)]
pub enum DelSpec {
    Key(u64),
    Tag(u8),
    /// key == k AND body contains word w
    KeyAndWord(u64, u8),
    /// key in [lo, hi]
    KeyRange(u64, u64),
    Word(u8),
    All,
}

impl DelSpec {
    pub fn matches(&self, d: &DocSpec) -> bool {
        match self {
            DelSpec::Key(k) => d.key == *k,
            DelSpec::Tag(t) => d.tag == *t,
            DelSpec::KeyAndWord(k, w) => d.key == *k && d.body.contains(w),
            DelSpec::KeyRange(lo, hi) => d.key >= *lo && d.key <= *hi,
            DelSpec::Word(w) => d.body.contains(w),
            DelSpec::All => true,
        }
    }
}

#[derive(Clone, Debug)]
pub struct CommitState {
    pub docs: Vec<DocSpec>,
    pub opstamp: Option<u64>,
    pub payload: Option<String>,
}

/// Sequential model of the index content.
#[derive(Clone, Debug)]
pub struct Model {
    /// current (uncommitted) view, in add order
    pub live: Vec<DocSpec>,
    pub commits: Vec<CommitState>,
}

impl Model {
    pub fn new() -> Model {
        Model {
            live: vec![],
            commits: vec![CommitState { docs: vec![], opstamp: Some(0), payload: None }],
        }
    }
    pub fn add(&mut self, d: DocSpec) {
        self.live.push(d);
    }
    pub fn delete(&mut self, q: &DelSpec) {
        self.live.retain(|d| !q.matches(d));
    }
    pub fn delete_all(&mut self) {
        self.live.clear();
    }
    pub fn commit(&mut self, opstamp: Option<u64>, payload: Option<String>) -> usize {
        self.commits.push(CommitState { docs: self.live.clone(), opstamp, payload });
        self.commits.len() - 1
    }
    pub fn rollback(&mut self) {
        self.live = self.commits.last().unwrap().docs.clone();
    }
    pub fn last(&self) -> &CommitState {
        self.commits.last().unwrap()
    }
}

pub fn uids(docs: &[DocSpec]) -> Vec<u64> {
    let mut v: Vec<u64> = docs.iter().map(|d| d.uid).collect();
    v.sort();
    v
}
