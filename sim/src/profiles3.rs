//! Profiles for C11 (I/O fault enumeration) and dispatch to the remaining ones.

use crate::exec::{self, catch, check_exact_files, compare, Exec, RunOut};
use crate::model::DocSpec;
use crate::profiles2::harness_fail;
use crate::rng::{derive, Rng};
use crate::sched::{self, draw_strategy};
use crate::simdir::{self, FailMode, FailSpec, TailMode};
use crate::workload::*;
use std::collections::BTreeSet;
use tantivy::Index;

pub fn gen_case3(prop: &str, seed: u64, thorough: bool, rng: &mut Rng) -> Case {
    match prop {
        "C11" => {
            let mut cfg = base_cfg(rng, Profile::Fault, thorough);
            cfg.index_threads = cfg.index_threads.min(3);
            cfg.faults.seed = rng.next_u64();
            cfg.faults.torn = rng.chance(1, 2);
            cfg.faults.lazy_reads = rng.chance(1, 3);
            cfg.faults.short_write_pct = *rng.pick(&[0u32, 0, 3]);
            cfg.strategy = draw_strategy(rng, &crate::profiles::CLASSES_ALL);
            let mut g = Gen { rng: Rng::new(rng.next_u64()), next_uid: 1 };
            let n = rng.range(3, 14) as usize;
            cfg.n_readers = if rng.chance(1, 2) { 1 } else { 0 };
            cfg.second_index_reader = rng.chance(1, 2);
            let mut ops = gen_history(&mut g, &cfg, n, rng.chance(1, 2), true, true);
            // an explicit collection right after some merges: a failed merge publication followed
            // by GC is where in-memory and on-storage metadata can disagree
            let mut k = 0;
            while k < ops.len() {
                if (matches!(ops[k], Op::Merge { .. } | Op::MergeWait) && rng.chance(1, 2)) || (matches!(ops[k], Op::Commit) && rng.chance(1, 6)) {
                    ops.insert(k + 1, Op::Gc);
                    k += 1;
                } else if cfg.n_readers > 0 && rng.chance(1, 5) {
                    ops.insert(k + 1, Op::Reload(0));
                    k += 1;
                }
                k += 1;
            }
            Case { seed, cfg, ops }
        }
        _ => crate::profiles4::gen_case4(prop, seed, thorough, rng),
    }
}

/// The faulted variants of a base case: a fault at storage op k for sampled (quick) or every
/// (thorough) k, in the flavours once / from k on / ENOSPC, plus thread-spawn failures.
pub fn fault_variants(base: &Case, base_out: &RunOut, setup_ops: u64, thorough: bool) -> Vec<Case> {
    let n = base_out.workload_ops.max(setup_ops + 1);
    let mut rng = Rng::new(derive(base.seed, &[0xFA17]));
    let mut ks: Vec<u64> = if thorough || n <= setup_ops + 24 {
        (setup_ops..n).collect()
    } else {
        // stratified: one k in each of 24 equal slices of the op range
        let span = n - setup_ops;
        (0..24u64).map(|j| setup_ops + j * span / 24 + rng.below((span / 24).max(1))).collect()
    };
    // faults are biased towards the commit point: every replacement of meta.json and every directory
    // sync of the workload phase is a fault point too (quick tier: up to 12 of them)
    let mut cps = base_out.commit_point_ops.clone();
    if !thorough && cps.len() > 18 {
        rng.shuffle(&mut cps);
        cps.truncate(18);
    }
    let mut v = vec![];
    if !thorough {
        for k in &cps {
            let mut c = base.clone();
            let mode = if rng.chance(2, 3) { FailMode::Once } else { FailMode::FromOn };
            c.cfg.faults.fails = vec![FailSpec { at: *k, mode }];
            v.push(c);
        }
    }
    ks.retain(|k| thorough || !cps.contains(k));
    ks.dedup();
    for k in ks {
        let modes: Vec<FailMode> = if thorough {
            vec![FailMode::Once, FailMode::FromOn, FailMode::Enospc]
        } else {
            // quick: one flavour per point, rotating
            vec![match rng.below(5) {
                0 | 1 => FailMode::Once,
                2 | 3 => FailMode::FromOn,
                _ => FailMode::Enospc,
            }]
        };
        for mode in modes {
            let mut c = base.clone();
            c.cfg.faults.fails = vec![FailSpec { at: k, mode }];
            v.push(c);
        }
    }
    // thread-spawn failures: spawn index counted from Index::create on
    let sc = base_out.spawn_count;
    let spawns: Vec<u64> = if thorough || sc <= 6 { (0..sc).collect() } else { (0..4).map(|_| rng.below(sc)).collect() };
    for j in spawns {
        let mut c = base.clone();
        c.cfg.fail_spawn_at = Some(j);
        v.push(c);
    }
    v
}

pub fn body3(prop: &'static str, case: &Case) -> RunOut {
    match prop {
        "C11" => body_fault(case),
        _ => crate::profiles4::body4(prop, case),
    }
}

pub fn exec_special3(e: &mut Exec, op: &Op) {
    crate::profiles4::exec_special4(e, op);
}

fn body_fault(case: &Case) -> RunOut {
    let mut e = match Exec::new(case, "C11") {
        Ok(e) => e,
        Err(m) => {
            // the very first writer may fail to start when a spawn failure is injected at index 0..
            if case.cfg.fail_spawn_at.is_some() {
                let mut o = RunOut::default();
                o.probe("first_writer_failed_by_spawn_fault");
                o.nontrivial = false;
                return o;
            }
            return harness_fail(m);
        }
    };
    e.fault_profile = true;
    e.fault_profile_reads = true;
    if case.cfg.n_readers > 0 {
        // a reader (sometimes on a second Index of the same storage) reloaded by the client thread
        if let Err(m) = crate::profiles4::setup_readers(&mut e, false) {
            crate::profiles4::READERS.with(|r| *r.borrow_mut() = None);
            return harness_fail(m);
        }
    }
    e.dir.arm(true);
    e.run_ops();
    let fired = e.dir.with(|s| s.first_fault_at.is_some());
    let spawn_failed = case.cfg.fail_spawn_at.is_some();
    e.out.nontrivial = fired || spawn_failed;
    if fired {
        e.out.probe("fault_fired");
    }
    if !e.out.api_errors.is_empty() {
        e.out.probe("api_error_reported");
    }
    // ---- faults stop here ----
    e.dir.arm(false);
    tantivy::verif_sim::with_knobs(|k| k.fail_spawn_at = None);
    sched::set_calm(true);
    if !e.out.violations.is_empty() {
        crate::profiles4::READERS.with(|r| *r.borrow_mut() = None);
        return e.finish();
    }
    recover_and_check(&mut e);
    if let Some(side) = crate::profiles4::READERS.with(|r| r.borrow_mut().take()) {
        // what the reader saw during the faulty phase was always one whole allowed commit
        let evs: Vec<crate::profiles4::ReaderEvent> = side.events.lock().unwrap().clone();
        drop(side);
        if e.out.violations.is_empty() {
            crate::profiles4::check_reader_events(&mut e, &evs, "C11");
        }
        e.out.probe_n("reader_events", evs.len() as u64);
    }
    sched::set_calm(false);
    e.finish()
}

/// After faults stopped: roll back or drop the writer, then the durable state must be one whole
/// allowed commit, a new writer must work, and one more GC must restore the exact file set.
pub fn recover_and_check(e: &mut Exec) {
    let mut rng = Rng::new(derive(e.case.seed, &[0x2EC0]));
    let had_error = e.stop;
    e.stop = false;
    e.pending_merges.clear();
    // 1. the client reacts: rollback (keep the writer) or drop it
    let use_rollback = rng.chance(1, 2);
    let mut rolled_back = false;
    if let Some(w) = e.writer.as_mut() {
        if use_rollback {
            match catch(|| w.rollback()) {
                Err(p) => {
                    e.out.violate("C11", "panic_on_calling_thread", format!("rollback after fault: {p}"));
                    return;
                }
                Ok(Err(err)) => {
                    // the client falls back to dropping the writer
                    e.out.probe("rollback_failed_after_faults_stopped");
                    e.out.api_errors.push(format!("rollback after faults stopped: {err}"));
                }
                Ok(Ok(_)) => {
                    rolled_back = true;
                    e.out.probe("recovered_by_rollback");
                }
            }
        }
    }
    if !rolled_back {
        if let Some(w) = e.writer.take() {
            if let Err(p) = catch(|| drop(w)) {
                e.out.violate("C11", "panic_on_calling_thread", format!("drop(writer) after fault: {p}"));
                return;
            }
            e.out.probe("recovered_by_drop");
        }
    }
    e.last_stamp = None;
    e.txn_ops = 0;
    // 2. durable / visible state is one whole allowed commit; resolve which one
    let now = e.dir.op_count();
    let allowed = e.allowed_at(now);
    let img = e.dir.visible_at(now);
    let m = match e.open_and_match(&img, &allowed) {
        Ok(m) => m,
        Err(msg) => {
            e.out.violate("C11", "state_after_fault", format!("after the fault ({}), visible state: {msg}", e.dir.with(|s| format!("{:?}", s.first_fault_at))));
            return;
        }
    };
    // the minimal crash image must be an allowed commit too (nothing half-published)
    let img_min = e.dir.image_at(now, TailMode::Minimal);
    if let Err(msg) = e.open_and_match(&img_min, &allowed) {
        e.out.violate("C11", "durable_state_after_fault", format!("minimal crash image after the fault: {msg}"));
        return;
    }
    // every acknowledged commit was durable when it returned
    let acked: Vec<(u64, usize)> =
        e.commit_events.iter().filter(|ev| ev.ok).filter_map(|ev| ev.model_after.map(|m| (ev.end_seq, m))).collect();
    for (end_seq, mm) in acked {
        let im = e.dir.image_at(end_seq, TailMode::Minimal);
        if let Err(msg) = e.open_and_match(&im, &[mm]) {
            e.out.violate("C11", "acknowledged_commit_not_durable", format!("commit acknowledged at storage op {end_seq}: {msg}"));
            return;
        }
    }
    // checksums of the surviving state
    {
        let d = simdir::SimDir::from_image(&img, true);
        match catch(|| Index::open(simdir::boxed(&d)).and_then(|i| i.validate_checksum())) {
            Err(p) => {
                e.out.violate("C11", "panic_on_calling_thread", format!("validate_checksum: {p}"));
                return;
            }
            Ok(Err(x)) => {
                e.out.violate("C11", "checksum_error_after_fault", x.to_string());
                return;
            }
            Ok(Ok(damaged)) => {
                if !damaged.is_empty() {
                    e.out.violate("C11", "checksum_after_fault", format!("damaged files {damaged:?}"));
                    return;
                }
            }
        }
    }
    // the model continues from the state that actually survived
    let st = e.model.commits[m].clone();
    e.model.commits.push(st.clone());
    e.model.live = st.docs.clone();
    let _ = had_error;
    // 3. a (new) writer continues indexing normally on the same storage
    if e.writer.is_none() {
        let cfg = e.case.cfg.clone();
        match catch(|| exec::make_writer(&e.index, &cfg, 1)) {
            Err(p) => {
                e.out.violate("C11", "panic_on_calling_thread", format!("new writer after fault: {p}"));
                return;
            }
            Ok(Err(err)) => {
                e.out.violate("C11", "no_new_writer_after_fault", format!("{err} (first fault: {:?})", e.dir.with(|s| s.first_fault_at.clone())));
                return;
            }
            Ok(Ok(w)) => e.writer = Some(w),
        }
    }
    let extra = DocSpec { uid: 2_000_000, key: 0, body: vec![1, 2], tag: 1, sortv: Some(2), js: 1 };
    e.exec_op(&Op::Add(extra));
    e.fault_profile = false; // from here on any error is a violation
    e.prop = "C11";
    e.exec_op(&Op::Commit);
    if !e.out.violations.is_empty() {
        return;
    }
    // 4. bounded liveness: one more GC restores the exact file set
    e.phase_quiesce(true);
    let _ = (compare as fn(_, _, _) -> _, check_exact_files as fn(_, _, _) -> _, BTreeSet::<u8>::new());
}
