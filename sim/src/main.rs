fn main() { println!("hello"); }
