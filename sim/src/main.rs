#![allow(dead_code, unused_imports)]
mod dump;
mod exec;
mod minimize;
mod model;
mod profiles;
mod profiles2;
mod profiles3;
mod profiles4;
mod rng;
mod runner;
mod sched;
mod simdir;
mod workload;

use std::collections::{BTreeMap, BTreeSet};
use std::io::Write;
use std::time::Instant;

fn leak(s: &str) -> &'static str {
    Box::leak(s.to_string().into_boxed_str())
}

fn has(args: &[String], name: &str) -> bool {
    args.iter().any(|a| a == name)
}

fn arg(args: &[String], name: &str) -> Option<String> {
    args.iter().position(|a| a == name).and_then(|i| args.get(i + 1).cloned())
}

fn main() {
    let args: Vec<String> = std::env::args().collect();
    runner::install_panic_hook();
    match args.get(1).map(|s| s.as_str()) {
        Some("run") => cmd_run(&args),
        Some("one") => cmd_one(&args),
        Some("replay") => cmd_replay(&args),
        Some("minimize") => cmd_minimize(&args),
        Some("gen") => cmd_gen(&args),
        Some("sweep") => cmd_sweep(&args),
        _ => {
            eprintln!("usage: tvsim run|one|replay ...");
            std::process::exit(2);
        }
    }
}

/// run --prop C02 --tier quick --seed 1 --shard 0/16 --runs N --budget-s T --out FILE
fn cmd_run(args: &[String]) {
    let prop = leak(&arg(args, "--prop").expect("--prop"));
    let thorough = arg(args, "--tier").map(|t| t == "thorough").unwrap_or(false);
    let seed: u64 = arg(args, "--seed").and_then(|s| s.parse().ok()).unwrap_or(1);
    let shard = arg(args, "--shard").unwrap_or("0/1".into());
    let (si, sn) = shard.split_once('/').unwrap();
    let (si, sn): (u64, u64) = (si.parse().unwrap(), sn.parse().unwrap());
    let runs: u64 = arg(args, "--runs").and_then(|s| s.parse().ok()).unwrap_or(100);
    let budget: f64 = arg(args, "--budget-s").and_then(|s| s.parse().ok()).unwrap_or(1e9);
    let out_path = arg(args, "--out").expect("--out");
    let progress = arg(args, "--progress");
    set_known(args);
    let t0 = Instant::now();
    let mut agg = Agg::default();
    let mut last_flush = Instant::now();
    let mut i = si;
    while i < runs {
        if t0.elapsed().as_secs_f64() > budget {
            break;
        }
        if let Some(p) = &progress {
            let _ = std::fs::write(p, format!("{i}"));
        }
        let rs = profiles::run_seed(seed, prop, thorough, i);
        let case = profiles::gen_case(prop, rs, thorough);
        let out = runner::run_case(prop, &case);
        agg.add(i, rs, &case, &out);
        agg.note_violation(i, rs, &case, &out);
        if prop == "C11" && out.violations.is_empty() && out.harness_error.is_none() {
            // fault enumeration: the same (history, schedule seed) with one fault at op k
            let variants = profiles3::fault_variants(&case, &out, out.setup_ops, thorough);
            for (j, vc) in variants.iter().enumerate() {
                if t0.elapsed().as_secs_f64() > budget {
                    break;
                }
                let vout = runner::run_case(prop, vc);
                agg.fault_points += 1;
                agg.add(1_000_000_000 + i * 1_000_000 + j as u64, rs, vc, &vout);
                agg.note_violation(i, rs, vc, &vout);
            }
        }
        i += sn;
        if last_flush.elapsed().as_secs_f64() > 4.0 {
            // partial report: survives an abort of this process
            agg.wall_s = t0.elapsed().as_secs_f64();
            agg.completed_upto = i;
            let tmp = format!("{out_path}.tmp");
            if std::fs::write(&tmp, serde_json::to_string(&agg.to_json()).unwrap()).is_ok() {
                let _ = std::fs::rename(&tmp, &out_path);
            }
            last_flush = Instant::now();
        }
    }
    agg.wall_s = t0.elapsed().as_secs_f64();
    agg.completed_upto = i;
    let mut f = std::fs::File::create(&out_path).expect("create out");
    f.write_all(serde_json::to_string(&agg.to_json()).unwrap().as_bytes()).unwrap();
}

#[derive(Default)]
pub struct Agg {
    runs: u64,
    nontrivial: u64,
    distinct_nontrivial: BTreeSet<u64>,
    log_hashes: Vec<(u64, u64)>,
    sched_sigs: BTreeSet<u64>,
    image_hashes: BTreeSet<u64>,
    steps: u64,
    storage_ops: u64,
    sim_time_us: u64,
    context_switches: u64,
    faults_fired: BTreeMap<String, u64>,
    ops_by_kind: BTreeMap<String, u64>,
    probes: BTreeMap<String, u64>,
    strategies: BTreeMap<String, u64>,
    harness_errors: Vec<String>,
    budget_exceeded: u64,
    violations: Vec<serde_json::Value>,
    violating_runs: u64,
    viol_classes: BTreeMap<String, u64>,
    known_triggers: BTreeMap<String, u64>,
    known_hits: BTreeMap<String, u64>,
    known_samples: Vec<serde_json::Value>,
    samples: Vec<serde_json::Value>,
    images_evaluated: u64,
    images_distinct: u64,
    publications_checked: u64,
    commits_ok: u64,
    fault_points: u64,
    api_errors: u64,
    wall_s: f64,
    completed_upto: u64,
}

impl Agg {
    fn add(&mut self, i: u64, rs: u64, case: &workload::Case, out: &exec::RunOut) {
        self.runs += 1;
        if out.nontrivial {
            self.nontrivial += 1;
            self.distinct_nontrivial.insert(out.log_hash);
        }
        self.log_hashes.push((i, out.log_hash));
        self.sched_sigs.insert(out.sched_sig);
        for h in &out.image_hashes {
            self.image_hashes.insert(*h);
        }
        self.steps += out.steps;
        self.storage_ops += out.storage_ops;
        self.sim_time_us += out.sim_time_us;
        self.context_switches += out.context_switches;
        for (k, v) in &out.faults_fired {
            *self.faults_fired.entry(k.clone()).or_insert(0) += v;
        }
        for (k, v) in &out.ops_by_kind {
            *self.ops_by_kind.entry(k.clone()).or_insert(0) += v;
        }
        for (k, v) in &out.probes {
            *self.probes.entry(k.clone()).or_insert(0) += v;
        }
        *self.strategies.entry(sched::strategy_name(&case.cfg.strategy)).or_insert(0) += 1;
        if let Some(h) = &out.harness_error {
            if h.starts_with("budget") {
                self.budget_exceeded += 1;
            } else if self.harness_errors.len() < 5 {
                self.harness_errors.push(format!("run {i} seed {rs}: {h}"));
            }
        }
        if !out.violations.is_empty() {
            self.violating_runs += 1;
            for v in &out.violations {
                *self.viol_classes.entry(format!("{}/{}", v.prop, v.oracle)).or_insert(0) += 1;
            }
        }
        for k in &out.known_triggers {
            *self.known_triggers.entry(k.clone()).or_insert(0) += 1;
        }
        for (k, v) in &out.known_hits {
            *self.known_hits.entry(k.clone()).or_insert(0) += 1;
            if self.known_samples.len() < 3 {
                self.known_samples.push(serde_json::json!({"finding": k, "run_index": i, "run_seed": rs, "violation": v}));
            }
        }
        self.images_evaluated += out.images_evaluated;
        self.images_distinct += out.images_distinct;
        self.publications_checked += out.publications_checked;
        self.commits_ok += out.commits_ok;
        self.fault_points += out.fault_points;
        self.api_errors += out.api_errors.len() as u64;
        if self.samples.len() < 2 && out.nontrivial {
            self.samples.push(serde_json::json!({
                "run_index": i, "run_seed": rs,
                "strategy": sched::strategy_name(&case.cfg.strategy),
                "config": {"index_threads": case.cfg.index_threads, "merge_threads": case.cfg.merge_threads,
                    "merge_policy": format!("{:?}", case.cfg.merge_policy), "flush_after": case.cfg.flush_after,
                    "sorted": case.cfg.sorted, "sort_ty": format!("{:?}", case.cfg.sort_ty), "file_lock": !case.cfg.flock,
                    "faults": case.cfg.faults},
                "ops": case.ops.iter().map(exec::short_op).collect::<Vec<_>>(),
                "steps": out.steps, "storage_ops": out.storage_ops, "context_switches": out.context_switches,
                "api_errors": out.api_errors, "first_fault": out.first_fault, "cases_of_this_run": out.sample_notes,
            }));
        }
    }

    fn note_violation(&mut self, i: u64, rs: u64, case: &workload::Case, out: &exec::RunOut) {
        if !out.violations.is_empty() && self.violations.len() < 5 {
            self.violations.push(serde_json::json!({
                "i": i, "run_seed": rs, "violations": out.violations, "case": case,
                "choices": out.choices, "trace": out.trace, "log_hash": out.log_hash,
            }));
        }
    }

    fn to_json(&self) -> serde_json::Value {
        serde_json::json!({
            "runs": self.runs, "nontrivial": self.nontrivial,
            "distinct_nontrivial": self.distinct_nontrivial.iter().collect::<Vec<_>>(),
            "log_hashes": self.log_hashes,
            "sched_sigs": self.sched_sigs.iter().collect::<Vec<_>>(),
            "image_hashes": self.image_hashes.iter().collect::<Vec<_>>(),
            "steps": self.steps, "storage_ops": self.storage_ops, "sim_time_us": self.sim_time_us,
            "context_switches": self.context_switches,
            "faults_fired": self.faults_fired, "ops_by_kind": self.ops_by_kind, "probes": self.probes,
            "strategies": self.strategies, "harness_errors": self.harness_errors,
            "budget_exceeded": self.budget_exceeded,
            "violations": self.violations, "violating_runs": self.violating_runs, "viol_classes": self.viol_classes, "known_triggers": self.known_triggers, "known_hits": self.known_hits, "known_samples": self.known_samples,
            "samples": self.samples, "images_evaluated": self.images_evaluated,
            "images_distinct": self.images_distinct,
            "publications_checked": self.publications_checked, "commits_ok": self.commits_ok,
            "fault_points": self.fault_points, "api_errors": self.api_errors,
            "wall_s": self.wall_s, "completed_upto": self.completed_upto,
        })
    }
}

/// one --prop C02 --tier quick --seed 1 --index 17 : run a single generated case verbosely
fn cmd_one(args: &[String]) {
    let prop = leak(&arg(args, "--prop").expect("--prop"));
    let thorough = arg(args, "--tier").map(|t| t == "thorough").unwrap_or(false);
    let seed: u64 = arg(args, "--seed").and_then(|s| s.parse().ok()).unwrap_or(1);
    let i: u64 = arg(args, "--index").and_then(|s| s.parse().ok()).unwrap_or(0);
    let rs = profiles::run_seed(seed, prop, thorough, i);
    let case = profiles::gen_case(prop, rs, thorough);
    println!("run_seed={rs} cfg={:?}", case.cfg);
    for (k, op) in case.ops.iter().enumerate() {
        println!("  op{k}: {}", exec::short_op(op));
    }
    let out = runner::run_case(prop, &case);
    println!("steps={} ops={} hash={:x} nontrivial={} harness_error={:?}", out.steps, out.storage_ops, out.log_hash, out.nontrivial, out.harness_error);
    println!("probes={:?} api_errors={:?}", out.probes, out.api_errors);
    for v in &out.violations {
        println!("VIOLATION-DETAIL property={} oracle={} {}", v.prop, v.oracle, v.detail);
    }
}

fn set_known(args: &[String]) {
    let known: Vec<String> = arg(args, "--known").unwrap_or_default().split(',').filter(|s| !s.is_empty()).map(|s| s.to_string()).collect();
    exec::KNOWN.with(|k| *k.borrow_mut() = known);
}

fn cmd_replay(args: &[String]) {
    set_known(args);
    // replay <file> [--prop Cxx]: the file is {property, case, choices?...}
    let path = args.get(2).expect("replay <file>");
    let v: serde_json::Value = serde_json::from_str(&std::fs::read_to_string(path).expect("read replay")).expect("json");
    let prop = leak(v["check"].as_str().or(v["property"].as_str()).or(arg(args, "--prop").as_deref()).expect("property"));
    let mut case: workload::Case = serde_json::from_value(v["case"].clone()).expect("case");
    if let Some(ch) = v.get("choices").and_then(|c| c.as_array()) {
        if !has(args, "--free") && !ch.is_empty() {
            case.cfg.strategy = sched::Strategy::Replay { choices: ch.iter().map(|x| x.as_u64().unwrap() as u32).collect() };
        }
    }
    let out = runner::run_case(prop, &case);
    for (k, op) in case.ops.iter().enumerate() {
        println!("  op{k}: {}", exec::short_op(op));
    }
    println!("steps={} ops={} hash={:x} harness_error={:?} known={:?}", out.steps, out.storage_ops, out.log_hash, out.harness_error, out.known_hits);
    if let Some(h) = v.get("log_hash").and_then(|h| h.as_u64()) {
        if h != out.log_hash && !has(args, "--free") {
            println!("HARNESS: event log hash differs from the recorded one ({:x} vs {:x})", out.log_hash, h);
            std::process::exit(2);
        }
    }
    for l in &out.oplog {
        println!("{l}");
    }
    if has(args, "--trace") {
        for t in &out.trace { println!("  {t}"); }
    }
    for v in &out.violations {
        println!("VIOLATION-DETAIL property={} oracle={} {}", v.prop, v.oracle, v.detail);
    }
    if let Some(v0) = out.violations.first() {
        println!("VIOLATION property={} replay={}", v0.prop, path);
        std::process::exit(1);
    }
    for (k, v) in &out.known_hits {
        println!("KNOWN-FINDING: property={} {} {} {}", v.prop, k, v.oracle, v.detail.chars().take(200).collect::<String>());
    }
}

/// minimize <in.json> <out.json>: shrink a violating case, write the replay file.
fn cmd_minimize(args: &[String]) {
    let inp = args.get(2).expect("minimize <in> <out>");
    let outp = args.get(3).expect("minimize <in> <out>");
    let v: serde_json::Value = serde_json::from_str(&std::fs::read_to_string(inp).expect("read")).expect("json");
    let vprop = v["property"].as_str().expect("property").to_string();
    let prop = leak(&arg(args, "--check-prop").unwrap_or(vprop.clone()));
    let oracle = v["oracle"].as_str().expect("oracle").to_string();
    let case: workload::Case = serde_json::from_value(v["case"].clone()).expect("case");
    let mut m = minimize::Minimizer {
        prop, vprop: vprop.clone(), oracle: oracle.clone(), execs: 0, t0: Instant::now(),
        max_execs: arg(args, "--max-execs").and_then(|s| s.parse().ok()).unwrap_or(4000),
        max_secs: arg(args, "--max-secs").and_then(|s| s.parse().ok()).unwrap_or(420.0),
    };
    let res = m.minimise(case.clone(), 24);
    let (best, out) = match res {
        Some(x) => x,
        None => {
            eprintln!("minimize: the original case does not reproduce");
            std::process::exit(3);
        }
    };
    let viol = out.violations.iter().find(|x| x.prop == vprop && x.oracle == oracle).unwrap().clone();
    let j = serde_json::json!({
        "property": vprop, "check": prop, "oracle": oracle, "detail": viol.detail,
        "run_seed": v["run_seed"], "original_ops": case.ops.len(), "minimised_ops": best.ops.len(),
        "minimiser_executions": m.execs,
        "case": best, "choices": out.choices, "log_hash": out.log_hash,
        "ops_readable": best.ops.iter().map(exec::short_op).collect::<Vec<_>>(),
        "storage_ops": out.storage_ops, "steps": out.steps, "first_fault": out.first_fault,
        "tantivy_rev": std::env::var("TVSIM_REPO_REV").unwrap_or_default(),
    });
    std::fs::write(outp, serde_json::to_string_pretty(&j).unwrap()).expect("write");
    println!("minimised {} -> {} ops in {} executions", case.ops.len(), best.ops.len(), m.execs);
}

/// gen --prop P --tier T --seed S --index I --out FILE: write the generated case (for the driver)
fn cmd_gen(args: &[String]) {
    let prop = leak(&arg(args, "--prop").expect("--prop"));
    let thorough = arg(args, "--tier").map(|t| t == "thorough").unwrap_or(false);
    let seed: u64 = arg(args, "--seed").and_then(|s| s.parse().ok()).unwrap_or(1);
    let i: u64 = arg(args, "--index").and_then(|s| s.parse().ok()).unwrap_or(0);
    let out = arg(args, "--out").expect("--out");
    let rs = profiles::run_seed(seed, prop, thorough, i);
    let case = profiles::gen_case(prop, rs, thorough);
    let vprop = if prop == "C02P" { "C02" } else { prop };
    let j = serde_json::json!({"property": vprop, "check": prop, "run_seed": rs, "case": case,
        "ops_readable": case.ops.iter().map(exec::short_op).collect::<Vec<_>>()});
    std::fs::write(out, serde_json::to_string_pretty(&j).unwrap()).expect("write");
}

/// sweep <case.json> --n N [--seed S] [--shard i/n] [--replay-out FILE]: run one case under N seeded
/// schedules (strategies drawn as in the profiles). On the first violating schedule a complete replay file
/// (case + recorded schedule) is written and `VIOLATION property=.. replay=..` printed; exit 1.
fn cmd_sweep(args: &[String]) {
    set_known(args);
    let path = args.get(2).expect("sweep <file>");
    let v: serde_json::Value = serde_json::from_str(&std::fs::read_to_string(path).expect("read")).expect("json");
    let prop = leak(v["check"].as_str().or(v["property"].as_str()).expect("property"));
    let case: workload::Case = serde_json::from_value(v["case"].clone()).expect("case");
    let n: u64 = arg(args, "--n").and_then(|s| s.parse().ok()).unwrap_or(100);
    let seed: u64 = arg(args, "--seed").and_then(|s| s.parse().ok()).unwrap_or(1);
    let shard = arg(args, "--shard").unwrap_or("0/1".into());
    let (si, sn) = shard.split_once('/').unwrap();
    let (si, sn): (u64, u64) = (si.parse().unwrap(), sn.parse().unwrap());
    let replay_out = arg(args, "--replay-out").unwrap_or(format!("{path}.violation.json"));
    let classes = ["producer0", "producer1", "producer2", "reader", "merge_thread", "segment_updater", "thrd-tantivy-index", "watch"];
    let mut executed = 0u64;
    let mut k = si;
    while k < n {
        let mut rng = rng::Rng::new(rng::derive(seed, &[k]));
        let mut c = case.clone();
        c.cfg.strategy = sched::draw_strategy(&mut rng, &classes);
        c.cfg.sched_seed = rng.next_u64();
        let out = runner::run_case(prop, &c);
        executed += 1;
        if let Some(h) = &out.harness_error {
            if !h.starts_with("budget") {
                println!("HARNESS: schedule {k}: {h}");
                std::process::exit(2);
            }
        }
        if let Some(x) = out.violations.first() {
            let j = serde_json::json!({
                "property": x.prop, "check": prop, "oracle": x.oracle, "detail": x.detail,
                "scenario": path, "schedule_index": k, "sweep_seed": seed,
                "case": c, "choices": out.choices, "log_hash": out.log_hash,
                "ops_readable": c.ops.iter().map(exec::short_op).collect::<Vec<_>>(),
            });
            std::fs::write(&replay_out, serde_json::to_string_pretty(&j).unwrap()).expect("write replay");
            println!("sweep: schedule {k} of scenario {path} violates: oracle={} {}", x.oracle, x.detail);
            println!("VIOLATION property={} replay={}", x.prop, replay_out);
            std::process::exit(1);
        }
        k += sn;
    }
    println!("sweep: {executed} schedules, no violation");
}
