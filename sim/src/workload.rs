//! Swarm configuration, operation grammar and the seeded workload generator.

use crate::model::{DelSpec, DocSpec, SortTy, SORT_TYS};
use crate::rng::Rng;
use crate::sched::Strategy;
use crate::simdir::FaultPlan;
use serde::{Deserialize, Serialize};

#[derive(Clone, Copy, Debug, PartialEq, Eq, Serialize, Deserialize)]
pub enum Profile {
    History,
    Merge,
    Crash,
    Fault,
    Readers,
    Lock,
    Producers,
    Damage,
}

#[derive(Clone, Debug, PartialEq, Serialize, Deserialize)]
pub enum MergePol {
    NoMerge,
    /// LogMergePolicy with min_num_segments = 2
    Log,
    /// harness policy: seeded random subsets
    Seeded(u64),
}

#[derive(Clone, Debug, PartialEq, Serialize, Deserialize)]
pub struct Cfg {
    pub profile: Profile,
    pub index_threads: usize,
    pub merge_threads: usize,
    pub merge_policy: MergePol,
    pub flush_after: Option<u32>,
    /// per-thread memory budget of the indexing workers (None = the 15 MB of the writer options)
    #[serde(default)]
    pub mem_budget: Option<usize>,
    /// capacity of the indexing pipeline (None = tantivy's 10 000 batches)
    #[serde(default)]
    pub pipeline_cap: Option<usize>,
    pub store_lz4: bool,
    pub store_blocksize: usize,
    pub store_thread: bool,
    pub sort_ty: SortTy,
    /// Some(desc): index sorted by `sortv`
    pub sorted: Option<bool>,
    pub flock: bool,
    pub nkeys: u64,
    pub faults: FaultPlan,
    /// fail the n-th thread spawn (0-based, counted from Index::create on)
    #[serde(default)]
    pub fail_spawn_at: Option<u64>,
    pub strategy: Strategy,
    pub sched_seed: u64,
    /// reader reload policy OnCommitWithDelay for harness readers
    pub reader_on_commit: bool,
    pub n_readers: usize,
    pub second_index_reader: bool,
    /// crash-image evaluation: every boundary (true) or sampled
    pub crash_every: bool,
    pub crash_samples: usize,
}

#[derive(Clone, Debug, PartialEq, Serialize, Deserialize)]
pub enum BatchOp {
    Add(DocSpec),
    Delete(u64),
}

#[derive(Clone, Debug, PartialEq, Serialize, Deserialize)]
pub enum ProdOp {
    Add(DocSpec),
    DeleteKey(u64),
    /// `IndexWriter::run` with a group of operations (contiguous opstamps)
    Batch(Vec<BatchOp>),
}

#[derive(Clone, Debug, PartialEq, Serialize, Deserialize)]
pub enum Op {
    Add(DocSpec),
    Delete(DelSpec),
    Batch(Vec<BatchOp>),
    DeleteAll,
    Commit,
    PrepareCommit { payload: Option<String>, commit: bool },
    Rollback,
    /// `prepare_commit()` whose result is dropped without commit or abort
    PrepareDrop,
    /// explicit merge of a seeded subset of the searchable segments; wait = block on the result
    Merge { sel: u64, wait: bool },
    /// wait for all pending explicit merge futures
    MergeWait,
    /// `wait_merging_threads` (consumes the writer) then a new writer
    WaitMerges { threads: usize },
    /// drop the writer, open a new one
    Reopen { threads: usize },
    Gc,
    /// reader r: reload()
    Reload(usize),
    /// reader r: keep the current searcher and its fingerprint
    Hold(usize),
    /// re-fingerprint all held searchers
    Recheck,
    /// try to create a second writer (must fail while one is alive)
    NewWriterAttempt { second_index: bool },
    /// concurrent producers on the shared writer; joined before the next op
    Fork(Vec<Vec<ProdOp>>),
    /// C18: drop the writer (no reopen)
    DropWriter,
    /// C18: create a writer (kind: 0 valid, 1 budget too small, 2 budget too large, 3 zero threads)
    CreateWriter { kind: u8, second_index: bool },
    /// C18: racing creations from n threads
    RaceCreate { n: usize },
    /// C18: kill a worker with an injected write error on the next segment write, then observe
    KillWorker,
    /// C18: rollback() under I/O errors (it fails), then observe the lock, then rollback again
    FaultyRollback,
    /// C18: start a merge, then `wait_merging_threads()` while other threads try to create a writer
    WaitMergesRace,
    /// C18: drop the writer with a backlog of uncommitted documents while other threads try to create a writer
    DropRace,
}

#[derive(Clone, Debug, PartialEq, Serialize, Deserialize)]
pub struct Case {
    pub seed: u64,
    pub cfg: Cfg,
    pub ops: Vec<Op>,
}

pub struct Gen {
    pub rng: Rng,
    pub next_uid: u64,
}

impl Gen {
    pub fn doc(&mut self, nkeys: u64) -> DocSpec {
        let uid = self.next_uid;
        self.next_uid += 1;
        DocSpec::gen(&mut self.rng, uid, nkeys)
    }
    pub fn del(&mut self, nkeys: u64) -> DelSpec {
        let r = &mut self.rng;
        match r.weighted(&[50, 10, 12, 10, 8, 3]) {
            0 => DelSpec::Key(r.below(nkeys)),
            1 => DelSpec::Tag(r.below(4) as u8),
            2 => DelSpec::KeyAndWord(r.below(nkeys), r.below(8) as u8),
            3 => {
                let lo = r.below(nkeys);
                DelSpec::KeyRange(lo, lo + r.below(2))
            }
            4 => DelSpec::Word(r.below(8) as u8),
            _ => DelSpec::All,
        }
    }
}

pub fn base_cfg(rng: &mut Rng, profile: Profile, thorough: bool) -> Cfg {
    let max_threads = if thorough { 8 } else { 4 };
    let index_threads = match rng.weighted(&[40, 30, 20, 10]) {
        0 => 1,
        1 => 2,
        2 => rng.range(3, 4) as usize,
        _ => rng.range(1, max_threads) as usize,
    };
    let merge_policy = match rng.weighted(&[35, 30, 35]) {
        0 => MergePol::NoMerge,
        1 => MergePol::Log,
        _ => MergePol::Seeded(rng.next_u64()),
    };
    let flush_after = match rng.weighted(&[25, 25, 20, 15, 15]) {
        0 => Some(1),
        1 => Some(2),
        2 => Some(3),
        3 => Some(5),
        _ => None,
    };
    let sorted = if rng.chance(1, 2) { Some(rng.chance(1, 2)) } else { None };
    Cfg {
        profile,
        index_threads,
        merge_threads: rng.range(1, 3) as usize,
        merge_policy,
        flush_after,
        // 3 MB is below tantivy's ~12 MB baseline consumption: the real memory-budget cut then
        // closes the segment after every document group (also twice as fast to simulate)
        mem_budget: if rng.chance(35, 100) { Some(3_000_000) } else { None },
        pipeline_cap: match rng.weighted(&[50, 25, 25]) {
            0 => None,
            1 => Some(1),
            _ => Some(rng.range(2, 4) as usize),
        },
        store_lz4: rng.chance(1, 2),
        store_blocksize: *rng.pick(&[64usize, 256, 1024, 16384]),
        store_thread: rng.chance(1, 2),
        sort_ty: *rng.pick(&SORT_TYS),
        sorted,
        flock: rng.chance(1, 2),
        nkeys: rng.range(2, 5),
        faults: FaultPlan::default(),
        fail_spawn_at: None,
        strategy: Strategy::Random,
        sched_seed: rng.next_u64(),
        reader_on_commit: false,
        n_readers: 0,
        second_index_reader: false,
        crash_every: false,
        crash_samples: 12,
    }
}

/// Generate a single-client history (profiles History / Merge / Crash / Fault).
pub fn gen_history(g: &mut Gen, cfg: &Cfg, n_ops: usize, merge_heavy: bool, allow_delete_all: bool, dirty_delete_all: bool) -> Vec<Op> {
    let mut ops = vec![];
    let nkeys = cfg.nkeys;
    let mut since_commit = 0;
    let mut docs = 0usize;
    let w_merge = if merge_heavy { 16 } else { 6 };
    while ops.len() < n_ops {
        // weights: add, delete, batch, delete_all, commit, prepare, rollback, merge, mergewait, waitmerges, reopen, gc
        let w = [
            if docs < 56 { 34 } else { 0 },
            12,
            if docs < 50 { 6 } else { 0 },
            if allow_delete_all && (since_commit == 0 || dirty_delete_all) { 2 } else { 0 },
            12,
            4,
            3,
            w_merge,
            2,
            1,
            2,
            2,
        ];
        let r = g.rng.weighted(&w);
        match r {
            0 => {
                ops.push(Op::Add(g.doc(nkeys)));
                docs += 1;
                since_commit += 1;
            }
            1 => {
                ops.push(Op::Delete(g.del(nkeys)));
                since_commit += 1;
            }
            2 => {
                let n = g.rng.range(1, 4);
                let mut b = vec![];
                for _ in 0..n {
                    if g.rng.chance(2, 3) {
                        b.push(BatchOp::Add(g.doc(nkeys)));
                        docs += 1;
                    } else {
                        b.push(BatchOp::Delete(g.rng.below(nkeys)));
                    }
                }
                ops.push(Op::Batch(b));
                since_commit += 1;
            }
            3 => ops.push(Op::DeleteAll),
            4 => {
                ops.push(Op::Commit);
                since_commit = 0;
            }
            5 => {
                let payload = if g.rng.chance(2, 3) {
                    Some(format!("payload-{}", g.rng.below(1000)))
                } else {
                    None
                };
                ops.push(Op::PrepareCommit { payload, commit: g.rng.chance(3, 4) });
                since_commit = 0;
            }
            6 => {
                if g.rng.chance(1, 4) {
                    ops.push(Op::PrepareDrop);
                } else {
                    ops.push(Op::Rollback);
                    since_commit = 0;
                }
            }
            7 => ops.push(Op::Merge { sel: g.rng.next_u64(), wait: g.rng.chance(1, 3) }),
            8 => ops.push(Op::MergeWait),
            9 => {
                ops.push(Op::WaitMerges { threads: g.rng.range(1, 3) as usize });
                since_commit = 0;
            }
            10 => {
                ops.push(Op::Reopen { threads: g.rng.range(1, 3) as usize });
                since_commit = 0;
            }
            _ => ops.push(Op::Gc),
        }
    }
    if !matches!(ops.last(), Some(Op::Commit)) {
        ops.push(Op::Commit);
    }
    ops
}
