//! Executes one `Case` (configuration + operation list) against real tantivy inside a shuttle
//! execution, next to the sequential reference model, and evaluates the oracles.

use crate::dump::{self, Dump};
use crate::model::{self, DelSpec, DocSpec, Fields, Model};
use crate::rng::Rng;
use crate::sched;
use crate::simdir::{self, Image, Mark, OpKind, SimDir, TailMode};
use crate::workload::*;
use std::collections::{BTreeMap, BTreeSet};
use std::panic::{catch_unwind, AssertUnwindSafe};
use std::path::{Path, PathBuf};
use tantivy::indexer::{
    IndexWriterOptions, LogMergePolicy, MergeCandidate, MergePolicy, NoMergePolicy, UserOperation,
};
use tantivy::query::{AllQuery, BooleanQuery, Occur, Query, RangeQuery, TermQuery};
use tantivy::schema::IndexRecordOption;
use tantivy::index::SegmentId;
use tantivy::store::Compressor;
use tantivy::{
    FutureResult, Index, IndexSettings, IndexSortByField, IndexWriter, Order, SegmentMeta,
    Term,
};

#[derive(Clone, Debug, serde::Serialize, serde::Deserialize, PartialEq)]
pub struct Violation {
    pub prop: String,
    pub oracle: String,
    pub detail: String,
}

#[derive(Clone, Debug, Default)]
pub struct RunOut {
    pub violations: Vec<Violation>,
    pub harness_error: Option<String>,
    pub log_hash: u64,
    pub steps: u64,
    pub storage_ops: u64,
    pub sim_time_us: u64,
    pub context_switches: u64,
    pub tasks: usize,
    pub choices: Vec<u32>,
    pub faults_fired: BTreeMap<String, u64>,
    pub ops_by_kind: BTreeMap<String, u64>,
    pub probes: BTreeMap<String, u64>,
    pub api_errors: Vec<String>,
    /// hash of the sequence of (task, kind) at storage ops = "distinct schedule" measure
    pub sched_sig: u64,
    pub images_evaluated: u64,
    pub images_distinct: u64,
    pub image_hashes: Vec<u64>,
    pub commits_ok: u64,
    pub publications_checked: u64,
    pub nontrivial: bool,
    pub trace: Vec<String>,
    pub fault_points: u64,
    pub first_fault: Option<String>,
    /// known findings (see /verif/known_findings.json) whose trigger pattern occurred in this run
    pub known_triggers: Vec<String>,
    /// violations that matched a known finding
    pub known_hits: Vec<(String, Violation)>,
    /// readable storage-op log (only when TVSIM_OPLOG is set)
    pub oplog: Vec<String>,
    pub spawn_count: u64,
    pub setup_ops: u64,
    /// storage ops issued when the workload (the fault-armed phase) ended
    pub workload_ops: u64,
    /// a few concrete cases of this run, for the evidence samples
    pub sample_notes: Vec<String>,
    /// storage ops of the workload phase at the commit point (meta.json replacement, directory syncs)
    pub commit_point_ops: Vec<u64>,
}

impl RunOut {
    pub fn note(&mut self, s: String) {
        if self.sample_notes.len() < 4 {
            self.sample_notes.push(s);
        }
    }
    pub fn probe(&mut self, name: &str) {
        *self.probes.entry(name.to_string()).or_insert(0) += 1;
    }
    pub fn probe_n(&mut self, name: &str, n: u64) {
        *self.probes.entry(name.to_string()).or_insert(0) += n;
    }
    pub fn violate(&mut self, prop: &str, oracle: &str, detail: String) {
        if self.violations.len() < 8 {
            self.violations.push(Violation { prop: prop.into(), oracle: oracle.into(), detail });
        }
        if oracle.contains("panic") {
            // A panic that unwound through code using the scheduler's primitives leaves the
            // simulated runtime in an undefined state (shuttle does not block a panicking
            // task): the execution cannot continue. Leave it at once with what we have.
            ESCALATED.with(|e| *e.borrow_mut() = Some(self.clone()));
            panic!("TVSIM-ESCALATE");
        }
    }
}

thread_local! {
    /// outcome handed to the runner when the execution is abandoned after a panic in tantivy
    pub static ESCALATED: std::cell::RefCell<Option<RunOut>> = const { std::cell::RefCell::new(None) };
    /// ids of the open known findings (from /verif/known_findings.json, passed by the driver)
    pub static KNOWN: std::cell::RefCell<Vec<String>> = const { std::cell::RefCell::new(Vec::new()) };
    pub static LAST_PANIC: std::cell::RefCell<String> = const { std::cell::RefCell::new(String::new()) };
}

pub fn catch<R>(f: impl FnOnce() -> R) -> Result<R, String> {
    match catch_unwind(AssertUnwindSafe(f)) {
        Ok(r) => Ok(r),
        Err(p) => {
            let msg = if let Some(s) = p.downcast_ref::<&str>() {
                s.to_string()
            } else if let Some(s) = p.downcast_ref::<String>() {
                s.clone()
            } else {
                "unknown panic".to_string()
            };
            let loc = LAST_PANIC.with(|l| l.borrow().clone());
            Err(format!("{msg} [{loc}]"))
        }
    }
}

#[derive(Debug)]
struct SeededMergePolicy {
    seed: u64,
    calls: std::sync::atomic::AtomicU64,
}

impl MergePolicy for SeededMergePolicy {
    fn compute_merge_candidates(&self, segments: &[SegmentMeta]) -> Vec<MergeCandidate> {
        let n = self.calls.fetch_add(1, std::sync::atomic::Ordering::SeqCst);
        let mut rng = Rng::new(crate::rng::derive(self.seed, &[n]));
        if segments.len() < 2 || rng.chance(1, 2) {
            return vec![];
        }
        let mut ids: Vec<SegmentId> = segments.iter().map(|s| s.id()).collect();
        ids.sort();
        rng.shuffle(&mut ids);
        let k = rng.range(2, ids.len() as u64) as usize;
        ids.truncate(k);
        vec![MergeCandidate(ids)]
    }
}

pub const BUDGET: usize = 15_000_000;

pub struct CommitEvent {
    pub start_seq: u64,
    pub end_seq: u64,
    pub model_before: usize,
    /// model commit index created by this attempt (if Ok, or assumed for Err)
    pub model_after: Option<usize>,
    pub ok: bool,
}

pub struct Exec<'a> {
    pub case: &'a Case,
    pub dir: SimDir,
    pub index: Index,
    pub fields: Fields,
    pub writer: Option<IndexWriter>,
    pub model: Model,
    pub specs: BTreeMap<u64, DocSpec>,
    pub pending_merges: Vec<FutureResult<Option<SegmentMeta>>>,
    pub out: RunOut,
    pub commit_events: Vec<CommitEvent>,
    pub setup_ops: u64,
    pub last_stamp: Option<u64>,
    pub delete_all_since_commit: bool,
    pub fault_profile: bool,
    pub stop: bool,
    /// property id that content violations are attributed to
    pub prop: &'static str,
    pub cur_threads: usize,
    /// adds/deletes issued since the last commit / rollback / reopen
    pub txn_ops: u32,
    /// reader observations may fail (faults are injected while they run)
    pub fault_profile_reads: bool,
    /// an explicit merge was left running without anybody waiting for it (future dropped)
    pub unwaited_merge: bool,
}

pub fn settings_of(cfg: &Cfg) -> IndexSettings {
    IndexSettings {
        sort_by_field: cfg.sorted.map(|desc| IndexSortByField {
            field: "sortv".to_string(),
            order: if desc { Order::Desc } else { Order::Asc },
        }),
        docstore_compression: if cfg.store_lz4 { Compressor::Lz4 } else { Compressor::None },
        docstore_compress_dedicated_thread: cfg.store_thread,
        docstore_blocksize: cfg.store_blocksize,
        ..IndexSettings::default()
    }
}

pub fn make_writer(index: &Index, cfg: &Cfg, threads: usize) -> tantivy::Result<IndexWriter> {
    let opts = IndexWriterOptions::builder()
        .num_worker_threads(threads)
        .memory_budget_per_thread(BUDGET)
        .num_merge_threads(cfg.merge_threads)
        .build();
    let w: IndexWriter = index.writer_with_options(opts)?;
    match &cfg.merge_policy {
        MergePol::NoMerge => w.set_merge_policy(Box::new(NoMergePolicy)),
        MergePol::Log => {
            let mut p = LogMergePolicy::default();
            p.set_min_num_segments(2);
            w.set_merge_policy(Box::new(p));
        }
        MergePol::Seeded(s) => w.set_merge_policy(Box::new(SeededMergePolicy {
            seed: *s,
            calls: std::sync::atomic::AtomicU64::new(0),
        })),
    }
    Ok(w)
}

pub fn del_query(q: &DelSpec, f: &Fields) -> Box<dyn Query> {
    let key_term = |k: u64| Term::from_field_u64(f.key, k);
    match q {
        DelSpec::Key(k) => Box::new(TermQuery::new(key_term(*k), IndexRecordOption::Basic)),
        DelSpec::Tag(t) => Box::new(TermQuery::new(
            Term::from_field_text(f.tag, model::TAGS[*t as usize]),
            IndexRecordOption::Basic,
        )),
        DelSpec::KeyAndWord(k, w) => Box::new(BooleanQuery::new(vec![
            (Occur::Must, Box::new(TermQuery::new(key_term(*k), IndexRecordOption::Basic)) as Box<dyn Query>),
            (
                Occur::Must,
                Box::new(TermQuery::new(
                    Term::from_field_text(f.body, model::VOCAB[*w as usize]),
                    IndexRecordOption::Basic,
                )),
            ),
        ])),
        DelSpec::KeyRange(lo, hi) => Box::new(RangeQuery::new(
            std::ops::Bound::Included(key_term(*lo)),
            std::ops::Bound::Included(key_term(*hi)),
        )),
        DelSpec::Word(w) => Box::new(TermQuery::new(
            Term::from_field_text(f.body, model::VOCAB[*w as usize]),
            IndexRecordOption::Basic,
        )),
        DelSpec::All => Box::new(AllQuery),
    }
}

/// Compare a dump with the expected documents. Returns a description of the first differences.
pub fn compare(dump: &Dump, docs: &[DocSpec], f: &Fields) -> Result<(), String> {
    let mut exp: BTreeMap<u64, String> = BTreeMap::new();
    for d in docs {
        exp.insert(d.uid, model::expected_record(d, f).canon());
    }
    let mut seen: BTreeMap<u64, u32> = BTreeMap::new();
    let mut errs = vec![];
    for r in dump.records() {
        *seen.entry(r.uid).or_insert(0) += 1;
        match exp.get(&r.uid) {
            None => errs.push(format!("surplus doc uid={}", r.uid)),
            Some(e) => {
                let got = r.canon();
                if *e != got {
                    errs.push(format!("record mismatch uid={}: expected <{}> got <{}>", r.uid, e, got));
                }
            }
        }
    }
    for (u, n) in &seen {
        if *n > 1 {
            errs.push(format!("doc uid={u} present {n} times"));
        }
    }
    for u in exp.keys() {
        if !seen.contains_key(u) {
            errs.push(format!("missing doc uid={u}"));
        }
    }
    if errs.is_empty() {
        Ok(())
    } else {
        errs.truncate(4);
        Err(format!(
            "{} (expected uids {:?}, got uids {:?})",
            errs.join("; "),
            model::uids(docs),
            dump.uids()
        ))
    }
}

/// C17: every segment sorted by sortv in the configured direction, missing first (asc) / last (desc).
pub fn check_sorted(dump: &Dump, desc: bool, specs: &BTreeMap<u64, DocSpec>) -> Result<(), String> {
    for seg in &dump.segments {
        let mut prev: Option<i32> = None;
        for (doc, r) in &seg.docs {
            let Some(spec) = specs.get(&r.uid) else { continue };
            let rank: i32 = spec.sort_rank().map(|x| x as i32).unwrap_or(-1);
            if let Some(p) = prev {
                let ok = if desc { rank <= p } else { rank >= p };
                if !ok {
                    return Err(format!(
                        "segment {} not sorted ({}): doc {} uid={} rank {} after rank {}",
                        seg.segment,
                        if desc { "desc" } else { "asc" },
                        doc,
                        r.uid,
                        rank,
                        p
                    ));
                }
            }
            prev = Some(rank);
        }
    }
    Ok(())
}

/// Expected file set of an index whose meta.json lists `metas` (C10).
pub fn expected_files(metas: &[SegmentMeta]) -> BTreeSet<PathBuf> {
    let mut s = BTreeSet::new();
    for m in metas {
        let id = m.id().uuid_string();
        for ext in ["idx", "pos", "term", "store", "fast", "fieldnorm"] {
            s.insert(PathBuf::from(format!("{id}.{ext}")));
        }
        if m.has_deletes() {
            s.insert(PathBuf::from(format!("{id}.{}.del", m.delete_opstamp().unwrap_or(0))));
        }
    }
    s.insert(PathBuf::from("meta.json"));
    s.insert(PathBuf::from(".managed.json"));
    s
}

/// C10 equality: directory content == files of the committed segments + metadata, and
/// `.managed.json` == managed files that exist. `ignore`: paths whose delete was made to fail.
pub fn check_exact_files(dir: &SimDir, index: &Index, ignore: &BTreeSet<PathBuf>) -> Result<(), String> {
    let metas = index.searchable_segment_metas().map_err(|e| format!("load metas: {e}"))?;
    let expected = expected_files(&metas);
    let actual: BTreeSet<PathBuf> = dir
        .visible_paths()
        .into_iter()
        .filter(|p| !p.to_string_lossy().ends_with(".lock"))
        .filter(|p| !ignore.contains(p))
        .collect();
    let expected: BTreeSet<PathBuf> = expected.into_iter().filter(|p| !ignore.contains(p)).collect();
    if actual != expected {
        let missing: Vec<_> = expected.difference(&actual).collect();
        let orphan: Vec<_> = actual.difference(&expected).collect();
        return Err(format!("directory != committed files: missing {missing:?}, orphans {orphan:?}"));
    }
    let img = dir.visible_image();
    let managed_raw = img.get(Path::new(".managed.json")).cloned().unwrap_or_default();
    let managed: BTreeSet<PathBuf> = serde_json::from_slice::<Vec<PathBuf>>(&managed_raw)
        .map_err(|e| format!(".managed.json unreadable: {e}"))?
        .into_iter()
        .filter(|p| !ignore.contains(p))
        .collect();
    let existing_managed: BTreeSet<PathBuf> =
        actual.iter().filter(|p| !p.to_string_lossy().starts_with('.')).cloned().collect();
    if managed != existing_managed {
        return Err(format!(
            ".managed.json {managed:?} != existing managed files {existing_managed:?}"
        ));
    }
    Ok(())
}

impl<'a> Exec<'a> {
    pub fn new(case: &'a Case, prop: &'static str) -> Result<Exec<'a>, String> {
        let cfg = &case.cfg;
        tantivy::verif_sim::with_knobs(|k| {
            *k = tantivy::verif_sim::Knobs::new();
            k.segment_counter = Some(1);
            k.flush_after_docs = cfg.flush_after;
            k.mem_budget = cfg.mem_budget;
            k.fail_spawn_at = cfg.fail_spawn_at;
        });
        tantivy::verif_sim::reset_caught_thread_panics();
        crossbeam_channel::set_capacity_cap(cfg.pipeline_cap);
        let (schema, fields) = model::build_schema(cfg.sort_ty);
        let dir = SimDir::new(cfg.flock, cfg.faults.clone());
        let index = Index::create(simdir::boxed(&dir), schema, settings_of(cfg))
            .map_err(|e| format!("HARNESS: Index::create failed: {e}"))?;
        let setup_ops = dir.op_count();
        let mut e = Exec {
            case,
            dir,
            index,
            fields,
            writer: None,
            model: Model::new(),
            specs: BTreeMap::new(),
            pending_merges: vec![],
            out: RunOut::default(),
            commit_events: vec![],
            setup_ops,
            last_stamp: None,
            delete_all_since_commit: false,
            fault_profile: false,
            stop: false,
            prop,
            cur_threads: cfg.index_threads,
            txn_ops: 0,
            fault_profile_reads: false,
            unwaited_merge: false,
        };
        let w = make_writer(&e.index, cfg, cfg.index_threads)
            .map_err(|err| format!("HARNESS: first writer failed: {err}"))?;
        e.writer = Some(w);
        Ok(e)
    }

    fn trace(&mut self, s: String) {
        if self.out.trace.len() < 400 {
            self.out.trace.push(s);
        }
    }

    /// An API call failed. In fault profiles this ends the workload; otherwise it is a violation.
    fn api_err(&mut self, what: &str, err: String) {
        self.out.api_errors.push(format!("{what}: {err}"));
        if self.fault_profile {
            self.stop = true;
        } else {
            let prop = self.prop;
            self.out.violate(prop, "api_error_without_fault", format!("{what} failed: {err}"));
            self.stop = true;
        }
    }

    fn api_panic(&mut self, what: &str, msg: String) {
        let prop = if self.fault_profile { "C11" } else { self.prop };
        self.out.violate(prop, "panic_on_calling_thread", format!("{what} panicked: {msg}"));
        self.stop = true;
    }

    fn note_stamp(&mut self, what: &str, stamp: u64) {
        if let Some(prev) = self.last_stamp {
            if stamp <= prev {
                self.out.violate(
                    "C02",
                    "opstamp_not_increasing",
                    format!("{what} returned opstamp {stamp} after {prev}"),
                );
            }
        }
        self.last_stamp = Some(stamp);
    }

    pub fn run_ops(&mut self) {
        let ops = self.case.ops.clone();
        for (i, op) in ops.iter().enumerate() {
            if self.stop {
                break;
            }
            self.trace(format!("op{i} {}", short_op(op)));
            self.exec_op(op);
            if self.fault_profile && !self.stop {
                self.check_integrity_after_fault(i);
            }
        }
        self.out.workload_ops = self.dir.op_count();
    }

    /// C11: once a fault has fired, after every further operation the state on storage must still be
    /// one whole allowed commit that opens and reads ("the last successful commit stays intact on
    /// storage and searchable"), whatever the in-memory state of the writer is.
    fn check_integrity_after_fault(&mut self, i: usize) {
        if self.dir.with(|s| s.first_fault_at.is_none()) {
            return;
        }
        let armed = self.dir.with(|s| {
            let a = s.armed;
            s.armed = false;
            a
        });
        let now = self.dir.op_count();
        let allowed = self.allowed_at(now);
        let img = self.dir.visible_at(now);
        let res = self.open_and_match(&img, &allowed);
        self.dir.arm(armed);
        self.out.probe("integrity_checks_after_fault");
        if let Err(msg) = res {
            let ff = self.dir.with(|s| format!("{:?}", s.first_fault_at));
            self.out.violate(
                "C11",
                "storage_state_after_fault",
                format!("after op{i} (first fault {ff}) the index on storage: {msg}"),
            );
            self.stop = true;
        }
    }

    pub fn exec_op(&mut self, op: &Op) {
        match op {
            Op::Add(d) => self.op_add(d),
            Op::Delete(q) => self.op_delete(q),
            Op::Batch(b) => self.op_batch(b),
            Op::DeleteAll => self.op_delete_all(),
            Op::Commit => self.op_commit(None, true, false),
            Op::PrepareCommit { payload, commit } => self.op_commit(payload.clone(), *commit, true),
            Op::Rollback => self.op_rollback(),
            Op::PrepareDrop => self.op_prepare_drop(),
            Op::Merge { sel, wait } => self.op_merge(*sel, *wait),
            Op::MergeWait => self.op_merge_wait(),
            Op::WaitMerges { threads } => self.op_wait_merges(*threads),
            Op::Reopen { threads } => self.op_reopen(*threads),
            Op::Gc => self.op_gc(),
            _ => {
                // profile-specific ops are executed by their own drivers
                crate::profiles::exec_special(self, op);
            }
        }
    }

    fn op_add(&mut self, d: &DocSpec) {
        let Some(w) = self.writer.as_ref() else { return };
        let doc = d.to_tantivy(&self.fields);
        match catch(|| w.add_document(doc)) {
            Err(p) => self.api_panic("add_document", p),
            Ok(Err(e)) => self.api_err("add_document", e.to_string()),
            Ok(Ok(stamp)) => {
                self.note_stamp("add_document", stamp);
                self.txn_ops += 1;
                self.specs.insert(d.uid, d.clone());
                self.model.add(d.clone());
            }
        }
    }

    fn op_delete(&mut self, q: &DelSpec) {
        let Some(w) = self.writer.as_ref() else { return };
        let f = &self.fields;
        let res = match q {
            DelSpec::Key(k) => catch(|| Ok(w.delete_term(Term::from_field_u64(f.key, *k)))),
            _ => catch(|| w.delete_query(del_query(q, f))),
        };
        match res {
            Err(p) => self.api_panic("delete", p),
            Ok(Err(e)) => {
                let e: tantivy::TantivyError = e;
                self.api_err("delete_query", e.to_string())
            }
            Ok(Ok(stamp)) => {
                self.note_stamp("delete", stamp);
                self.txn_ops += 1;
                self.model.delete(q);
            }
        }
    }

    fn op_batch(&mut self, b: &[BatchOp]) {
        let Some(w) = self.writer.as_ref() else { return };
        let f = &self.fields;
        let ops: Vec<UserOperation> = b
            .iter()
            .map(|o| match o {
                BatchOp::Add(d) => UserOperation::Add(d.to_tantivy(f)),
                BatchOp::Delete(k) => UserOperation::Delete(Term::from_field_u64(f.key, *k)),
            })
            .collect();
        match catch(|| w.run(ops)) {
            Err(p) => self.api_panic("run", p),
            Ok(Err(e)) => self.api_err("run", e.to_string()),
            Ok(Ok(stamp)) => {
                self.note_stamp("run", stamp);
                self.txn_ops += 1;
                for o in b {
                    match o {
                        BatchOp::Add(d) => {
                            self.specs.insert(d.uid, d.clone());
                            self.model.add(d.clone());
                        }
                        BatchOp::Delete(k) => self.model.delete(&DelSpec::Key(*k)),
                    }
                }
            }
        }
    }

    fn op_delete_all(&mut self) {
        let Some(w) = self.writer.as_ref() else { return };
        match catch(|| w.delete_all_documents()) {
            Err(p) => self.api_panic("delete_all_documents", p),
            Ok(Err(e)) => self.api_err("delete_all_documents", e.to_string()),
            Ok(Ok(_stamp)) => {
                // the returned value is the opstamp the writer was opened on (kept for
                // compatibility); it is not part of the stamp sequence
                self.txn_ops += 1;
                self.model.delete_all();
            }
        }
    }

    pub fn op_commit(&mut self, payload: Option<String>, commit: bool, prepared: bool) {
        let Some(w) = self.writer.as_mut() else { return };
        let idx = self.commit_events.len();
        let model_before = self.model.commits.len() - 1;
        self.dir.mark(Mark::CommitStart(idx));
        let start_seq = self.dir.op_count();
        let res: Result<tantivy::Result<(u64, bool)>, String> = if prepared {
            catch(|| {
                let mut pc = w.prepare_commit()?;
                if let Some(p) = &payload {
                    pc.set_payload(p);
                }
                if commit {
                    Ok((pc.commit()?, true))
                } else {
                    Ok((pc.abort()?, false))
                }
            })
        } else {
            catch(|| Ok((w.commit()?, true)))
        };
        let end_seq = self.dir.op_count();
        match res {
            Err(p) => {
                self.dir.mark(Mark::CommitEnd(idx, false));
                self.commit_events.push(CommitEvent { start_seq, end_seq, model_before, model_after: None, ok: false });
                self.api_panic("commit", p)
            }
            Ok(Err(e)) => {
                // the commit may or may not have been published: remember the candidate state
                let cand = if commit {
                    Some(self.model.commit(None, if prepared { payload.clone() } else { None }))
                } else {
                    None
                };
                self.dir.mark(Mark::CommitEnd(idx, false));
                self.commit_events.push(CommitEvent { start_seq, end_seq, model_before, model_after: cand, ok: false });
                self.api_err(if commit { "commit" } else { "abort" }, e.to_string());
            }
            Ok(Ok((stamp, true))) => {
                let m = self.model.commit(Some(stamp), if prepared { payload.clone() } else { None });
                self.txn_ops = 0;
                self.dir.mark(Mark::CommitEnd(idx, true));
                self.commit_events.push(CommitEvent { start_seq, end_seq, model_before, model_after: Some(m), ok: true });
                self.out.commits_ok += 1;
                if let Some(prev) = self.last_stamp {
                    if stamp <= prev {
                        self.out.violate(
                            "C02",
                            "commit_opstamp_not_above_ops",
                            format!("commit returned {stamp}, an included operation had {prev}"),
                        );
                    }
                }
                self.last_stamp = Some(stamp);
                self.delete_all_since_commit = false;
                self.after_commit_checks(stamp, if prepared { payload } else { None });
            }
            Ok(Ok((stamp, false))) => {
                // abort == rollback
                self.dir.mark(Mark::CommitEnd(idx, false));
                self.commit_events.push(CommitEvent { start_seq, end_seq, model_before, model_after: None, ok: true });
                self.model.rollback();
        self.txn_ops = 0;
                self.last_stamp = None;
                self.delete_all_since_commit = false;
                self.check_rollback_stamp("abort", stamp);
            }
        }
    }

    fn check_rollback_stamp(&mut self, what: &str, stamp: u64) {
        if let Some(exp) = self.model.last().opstamp {
            if exp != stamp {
                self.out.violate(
                    "C02",
                    "rollback_opstamp",
                    format!("{what} returned opstamp {stamp}, last commit was {exp}"),
                );
            }
        }
    }

    /// After a successful commit: content, opstamp and payload of what a fresh reader sees.
    fn after_commit_checks(&mut self, stamp: u64, payload: Option<String>) {
        let prop = self.prop;
        match catch(|| self.index.load_metas()) {
            Ok(Ok(meta)) => {
                if meta.opstamp != stamp {
                    self.out.violate(
                        "C02",
                        "meta_opstamp",
                        format!("commit returned {stamp} but meta.json says {}", meta.opstamp),
                    );
                }
                if meta.payload != payload {
                    self.out.violate(
                        "C02",
                        "payload",
                        format!("payload {:?} committed, meta.json has {:?}", payload, meta.payload),
                    );
                }
            }
            Ok(Err(e)) => {
                if !self.fault_profile {
                    self.out.violate(prop, "load_metas_failed", e.to_string())
                }
            }
            Err(p) => self.out.violate(prop, "load_metas_panic", p),
        }
        if let Some(w) = self.writer.as_ref() {
            let co = w.commit_opstamp();
            if co != stamp {
                self.out.violate(
                    "C02",
                    "writer_commit_opstamp",
                    format!("commit returned {stamp} but writer.commit_opstamp() is {co}"),
                );
            }
        }
        self.check_content("after_commit");
    }

    /// Fresh reader content == last model commit (+ sortedness when configured).
    pub fn check_content(&mut self, when: &str) {
        let prop = self.prop;
        let armed_before = self.dir.with(|s| {
            let a = s.armed;
            s.armed = false;
            a
        });
        let res = catch(|| dump::dump_index(&self.index, &self.fields));
        self.dir.arm(armed_before);
        match res {
            Err(p) => self.out.violate(prop, "dump_panic", format!("{when}: {p}")),
            Ok(Err(e)) => self.out.violate(prop, "dump_error", format!("{when}: {e}")),
            Ok(Ok(d)) => {
                self.out.probe_n("segments_read_back", d.segments.len() as u64);
                let docs = self.model.last().docs.clone();
                if let Err(msg) = compare(&d, &docs, &self.fields) {
                    self.out.violate(prop, "content", format!("{when}: {msg}"));
                }
                if let Some(desc) = self.case.cfg.sorted {
                    if let Err(msg) = check_sorted(&d, desc, &self.specs) {
                        self.out.violate("C17", "segment_not_sorted", format!("{when}: {msg}"));
                    }
                }
            }
        }
    }

    /// `prepare_commit()` dropped without commit or abort: the pending documents are flushed into
    /// uncommitted segments, nothing is published, the transaction goes on.
    fn op_prepare_drop(&mut self) {
        let Some(w) = self.writer.as_mut() else { return };
        match catch(|| w.prepare_commit().map(|pc| pc.opstamp())) {
            Err(p) => self.api_panic("prepare_commit", p),
            Ok(Err(e)) => self.api_err("prepare_commit", e.to_string()),
            Ok(Ok(stamp)) => {
                self.note_stamp("prepare_commit", stamp);
                self.out.probe("prepare_commit_dropped");
            }
        }
    }

    fn op_rollback(&mut self) {
        let Some(w) = self.writer.as_mut() else { return };
        match catch(|| w.rollback()) {
            Err(p) => self.api_panic("rollback", p),
            Ok(Err(e)) => self.api_err("rollback", e.to_string()),
            Ok(Ok(stamp)) => {
                self.model.rollback();
        self.txn_ops = 0;
                self.last_stamp = None;
                self.delete_all_since_commit = false;
                if !self.pending_merges.is_empty() {
                    self.unwaited_merge = true;
                }
                self.pending_merges.clear();
                self.check_rollback_stamp("rollback", stamp);
                self.check_content("after_rollback");
            }
        }
    }

    fn op_merge(&mut self, sel: u64, wait: bool) {
        let Some(w) = self.writer.as_mut() else { return };
        let ids = match catch(|| self.index.searchable_segment_ids()) {
            Ok(Ok(ids)) => ids,
            Ok(Err(e)) => {
                return self.api_err("searchable_segment_ids", e.to_string());
            }
            Err(p) => return self.api_panic("searchable_segment_ids", p),
        };
        if ids.is_empty() {
            return;
        }
        let mut ids = ids;
        ids.sort();
        let mut rng = Rng::new(sel);
        rng.shuffle(&mut ids);
        let k = if ids.len() == 1 { 1 } else { rng.range(2.min(ids.len() as u64), ids.len() as u64) as usize };
        ids.truncate(k);
        // "every choice of source segments": now and then the caller lists a segment twice
        if rng.chance(1, 8) {
            let dup = ids[rng.below(ids.len() as u64) as usize];
            ids.push(dup);
            self.out.probe("merge_with_repeated_segment_id");
        }
        self.out.probe("merge_explicit_started");
        // translation check (C04): a waited merge of an unsorted index stacks the alive documents of
        // its sources in the order the segments were given
        let before = if wait && self.case.cfg.sorted.is_none() && !self.fault_profile {
            dump::dump_index(&self.index, &self.fields).ok()
        } else {
            None
        };
        let w = self.writer.as_mut().unwrap();
        match catch(|| w.merge(&ids)) {
            Err(p) => self.api_panic("merge", p),
            Ok(fut) => {
                if wait {
                    let produced = self.wait_merge(fut);
                    if let (Some(before), Some(meta)) = (before, produced) {
                        self.check_merge_order(&before, &ids, &meta);
                    }
                } else {
                    self.pending_merges.push(fut);
                }
            }
        }
    }

    fn check_merge_order(&mut self, before: &Dump, ids: &[SegmentId], meta: &SegmentMeta) {
        let Ok(after) = dump::dump_index(&self.index, &self.fields) else { return };
        let new_id = meta.id().uuid_string();
        let Some(seg) = after.segments.iter().find(|s| s.segment == new_id) else { return };
        let mut sources: Vec<Vec<u64>> = vec![];
        let mut seen: Vec<SegmentId> = vec![];
        for id in ids {
            // a segment listed twice is still one source
            if seen.contains(id) {
                continue;
            }
            seen.push(*id);
            let sid = id.uuid_string();
            match before.segments.iter().find(|s| s.segment == sid) {
                Some(s) => sources.push(s.docs.iter().map(|(_, r)| r.uid).collect()),
                None => return, // a source was not part of the committed view (uncommitted segment)
            }
        }
        sources.retain(|l| !l.is_empty());
        let got: Vec<u64> = seg.docs.iter().map(|(_, r)| r.uid).collect();
        self.out.probe("merge_order_checked");
        // the merged segment is the sources stacked (in whatever order of the sources), each
        // source's alive documents contiguous and in their original order
        let mut rest: &[u64] = &got;
        let mut left = sources.clone();
        let mut ok = true;
        while !rest.is_empty() {
            match left.iter().position(|l| rest.len() >= l.len() && &rest[..l.len()] == l.as_slice()) {
                Some(i) => {
                    let l = left.remove(i);
                    rest = &rest[l.len()..];
                }
                None => {
                    ok = false;
                    break;
                }
            }
        }
        if !ok || !left.is_empty() {
            self.out.violate(
                "C04",
                "merge_order",
                format!("merge of {:?} produced documents {got:?}, which is not the sources {sources:?} stacked", ids.iter().map(|i| i.uuid_string()).collect::<Vec<_>>()),
            );
        }
    }

    fn wait_merge(&mut self, fut: FutureResult<Option<SegmentMeta>>) -> Option<SegmentMeta> {
        match catch(|| fut.wait()) {
            Err(p) => self.api_panic("merge.wait", p),
            Ok(Ok(Some(m))) => {
                self.out.probe("merge_explicit_ok");
                return Some(m);
            }
            Ok(Ok(None)) => self.out.probe("merge_explicit_empty"),
            Ok(Err(e)) => {
                // a merge whose sources vanished (rollback, delete_all, competing merge) is
                // discarded: not an error of the index. Content is checked by the publication
                // oracle and at the next commit.
                self.out.probe("merge_explicit_err");
                self.out.api_errors.push(format!("merge: {e}"));
                if self.fault_profile && self.dir.with(|s| s.first_fault_at.is_some()) {
                    // confined to a background merge: allowed; keep going
                }
            }
        }
        None
    }

    fn op_merge_wait(&mut self) {
        let futs = std::mem::take(&mut self.pending_merges);
        for f in futs {
            let _ = self.wait_merge(f);
        }
    }

    fn op_wait_merges(&mut self, threads: usize) {
        self.op_merge_wait();
        let Some(w) = self.writer.take() else { return };
        match catch(|| w.wait_merging_threads()) {
            Err(p) => self.api_panic("wait_merging_threads", p),
            Ok(Err(e)) => self.api_err("wait_merging_threads", e.to_string()),
            Ok(Ok(())) => {}
        }
        self.model.rollback();
        self.txn_ops = 0;
        self.last_stamp = None;
        self.delete_all_since_commit = false;
        if !self.stop {
            self.new_writer(threads);
        }
    }

    fn op_reopen(&mut self, threads: usize) {
        if !self.pending_merges.is_empty() {
            self.unwaited_merge = true;
        }
        self.pending_merges.clear();
        if let Some(w) = self.writer.take() {
            if let Err(p) = catch(|| drop(w)) {
                self.api_panic("drop(writer)", p);
            }
        }
        self.model.rollback();
        self.txn_ops = 0;
        self.last_stamp = None;
        self.delete_all_since_commit = false;
        if !self.stop {
            self.new_writer(threads);
        }
    }

    pub fn new_writer(&mut self, threads: usize) {
        self.cur_threads = threads;
        match catch(|| make_writer(&self.index, &self.case.cfg, threads)) {
            Err(p) => self.api_panic("writer", p),
            Ok(Err(e)) => self.api_err("writer", e.to_string()),
            Ok(Ok(w)) => self.writer = Some(w),
        }
    }

    fn op_gc(&mut self) {
        if self.writer.is_none() {
            return;
        }
        // C10 with the writer still alive: a commit has returned, no merge can be running (no policy
        // merges, no pending explicit merge), nothing is uncommitted. Threads of earlier writers of
        // this run must be gone BEFORE the collection (they keep their segment metas alive), hence the
        // quiescence on both sides of it.
        let exact = !self.fault_profile
            && self.case.cfg.merge_policy == MergePol::NoMerge
            && self.pending_merges.is_empty()
            && self.txn_ops == 0
            && !self.unwaited_merge
            && self.out.violations.is_empty();
        if exact {
            sched::quiesce();
        }
        let w = self.writer.as_ref().unwrap();
        match catch(|| w.garbage_collect_files().wait()) {
            Err(p) => self.api_panic("garbage_collect_files", p),
            Ok(Err(e)) => self.api_err("garbage_collect_files", e.to_string()),
            Ok(Ok(_)) => {
                if exact {
                    sched::quiesce();
                    self.out.probe("exact_files_with_live_writer_checked");
                    if let Err(msg) = check_exact_files(&self.dir, &self.index, &BTreeSet::new()) {
                        self.out.violate("C10", "exact_files_after_gc_with_live_writer", msg);
                    }
                }
            }
        }
    }

    // --------------------------------------------------------------------------------------
    // phase Q

    /// Quiescence: wait merges, stop the writer, quiesce, fresh writer + GC, exact file set.
    pub fn phase_quiesce(&mut self, check_files: bool) {
        self.dir.arm(false);
        sched::set_calm(true);
        self.op_merge_wait();
        if let Some(w) = self.writer.take() {
            match catch(|| w.wait_merging_threads()) {
                Err(p) => {
                    let prop = self.prop;
                    self.out.violate(prop, "panic_on_calling_thread", format!("wait_merging_threads: {p}"))
                }
                Ok(Err(e)) => {
                    if !self.fault_profile {
                        let prop = self.prop;
                        self.out.violate(prop, "api_error_without_fault", format!("wait_merging_threads: {e}"));
                    }
                }
                Ok(Ok(())) => {}
            }
        }
        self.model.rollback();
        self.txn_ops = 0;
        sched::quiesce();
        if !check_files {
            return;
        }
        // content is still the last commit
        self.check_content("at_quiescence");
        // fresh writer, explicit GC
        let cfg = self.case.cfg.clone();
        match catch(|| -> tantivy::Result<()> {
            let w = make_writer(&self.index, &cfg, 1)?;
            w.garbage_collect_files().wait()?;
            w.wait_merging_threads()?;
            Ok(())
        }) {
            Err(p) => self.out.violate("C10", "panic_on_calling_thread", format!("final GC: {p}")),
            Ok(Err(e)) => self.out.violate("C10", "final_gc_failed", e.to_string()),
            Ok(Ok(())) => {}
        }
        sched::quiesce();
        let ignore = BTreeSet::new();
        if let Err(msg) = check_exact_files(&self.dir, &self.index, &ignore) {
            self.out.violate("C10", "exact_files_at_quiescence", msg);
        }
        self.check_content("after_final_gc");
    }

    // --------------------------------------------------------------------------------------
    // publication oracle

    /// Allowed model states for something observed at storage boundary `q`.
    pub fn allowed_at(&self, q: u64) -> Vec<usize> {
        let mut done = 0usize; // model index 0 = empty index
        let mut allowed = vec![];
        for ev in &self.commit_events {
            if ev.end_seq <= q {
                if ev.ok {
                    if let Some(m) = ev.model_after {
                        done = m;
                        allowed.clear();
                    }
                } else if let Some(m) = ev.model_after {
                    // failed commit: may have been published
                    allowed.push(m);
                }
            } else if ev.start_seq <= q {
                if let Some(m) = ev.model_after {
                    allowed.push(m);
                }
            }
        }
        let mut v = vec![done];
        v.extend(allowed);
        v
    }

    /// Every meta.json ever published denotes exactly one commit (C02/C04/C05).
    pub fn check_publications(&mut self) {
        let pubs: Vec<u64> = self.dir.with(|s| {
            s.log
                .iter()
                .filter(|r| r.kind == OpKind::AtomicWrite && r.outcome == 0 && s.paths[r.path as usize] == Path::new("meta.json"))
                .map(|r| r.seq)
                .collect()
        });
        let prop = if self.case.cfg.profile == Profile::Merge { "C04" } else { self.prop };
        for q in pubs {
            if q < self.setup_ops {
                continue;
            }
            let img = self.dir.visible_at(q + 1);
            let allowed = self.allowed_at(q);
            self.out.publications_checked += 1;
            match self.open_and_match(&img, &allowed) {
                Ok(_) => {}
                Err(msg) => {
                    self.out.violate(prop, "publication", format!("meta.json published at storage op {q}: {msg}"));
                    return;
                }
            }
        }
    }

    /// Open an image, dump it, match it against the allowed model commits. Returns the matched
    /// model index.
    pub fn open_and_match(&self, img: &Image, allowed: &[usize]) -> Result<usize, String> {
        let d = SimDir::from_image(img, true);
        let index = catch(|| Index::open(simdir::boxed(&d)))
            .map_err(|p| format!("Index::open panicked: {p}"))?
            .map_err(|e| format!("Index::open failed: {e}"))?;
        let meta = index.load_metas().map_err(|e| format!("load_metas: {e}"))?;
        let dump = catch(|| dump::dump_index(&index, &self.fields))
            .map_err(|p| format!("reading the index panicked: {p}"))?
            .map_err(|e| format!("reading the index failed: {e}"))?;
        let mut errs = vec![];
        for m in allowed {
            let c = &self.model.commits[*m];
            match compare(&dump, &c.docs, &self.fields) {
                Ok(()) => {
                    if let Some(op) = c.opstamp {
                        if op != meta.opstamp {
                            errs.push(format!("content of commit#{m} but opstamp {} != {}", meta.opstamp, op));
                            continue;
                        }
                        if c.payload != meta.payload {
                            errs.push(format!("content of commit#{m} but payload {:?} != {:?}", meta.payload, c.payload));
                            continue;
                        }
                    }
                    if let Some(desc) = self.case.cfg.sorted {
                        check_sorted(&dump, desc, &self.specs)?;
                    }
                    return Ok(*m);
                }
                Err(e) => errs.push(format!("vs commit#{m}: {e}")),
            }
        }
        Err(format!("matches none of the allowed commits {allowed:?}: {}", errs.join(" || ")))
    }

    pub fn finish(mut self) -> RunOut {
        let (hash, ops, time, stats, first_fault, sig) = self.dir.with(|s| {
            let mut sig = 0u64;
            for r in &s.log {
                sig = crate::rng::hash_bytes(sig, s.tasks[r.task as usize].as_bytes());
                sig = crate::rng::hash_bytes(sig, &[r.kind as u8]);
            }
            (s.log_hash, s.op_seq, s.sim_time_us, s.stats.clone(), s.first_fault_at.clone(), sig)
        });
        if std::env::var("TVSIM_OPLOG").is_ok() {
            self.out.oplog = self.dir.with(|s| {
                let mut marks = s.marks.iter().peekable();
                let mut v = vec![];
                for r in &s.log {
                    while let Some((q, _, m)) = marks.peek() {
                        if *q <= r.seq {
                            v.push(format!("      -- {m:?}"));
                            marks.next();
                        } else {
                            break;
                        }
                    }
                    v.push(format!("{:5} step{:6} {:24} {:?} {} len={} outcome={}", r.seq, r.step, s.tasks[r.task as usize], r.kind, s.paths[r.path as usize].display(), r.len, r.outcome));
                }
                v
            });
        }
        let (lo, hi) = (self.setup_ops, self.out.workload_ops);
        self.out.commit_point_ops = self.dir.with(|s| {
            s.log
                .iter()
                .filter(|r| r.seq >= lo && r.seq < hi)
                .filter(|r| {
                    // the commit point: meta.json replacement, directory syncs, and the alive-bitset
                    // (.del) files written by purge_deletes / the end_merge reconciliation
                    (r.kind == OpKind::AtomicWrite && s.paths[r.path as usize] == Path::new("meta.json"))
                        || r.kind == OpKind::SyncDir
                        || (matches!(r.kind, OpKind::Create | OpKind::Write | OpKind::Terminate)
                            && s.paths[r.path as usize].to_string_lossy().ends_with(".del"))
                })
                .map(|r| r.seq)
                .collect()
        });
        let windows: Vec<(u64, u64)> = self.commit_events.iter().map(|c| (c.start_seq, c.end_seq)).collect();
        let recon = self.dir.with(|s| {
            s.log
                .iter()
                .filter(|r| r.kind == OpKind::Create && s.paths[r.path as usize].to_string_lossy().ends_with(".del"))
                .filter(|r| s.tasks[r.task as usize].starts_with("segment_updater"))
                .filter(|r| !windows.iter().any(|(a, b)| r.seq >= *a && r.seq < *b))
                .count() as u64
        });
        if recon > 0 {
            self.out.probe_n("end_merge_reconciliation_taken", recon);
        }
        self.out.log_hash = hash;
        self.out.spawn_count = tantivy::verif_sim::with_knobs(|k| k.spawn_count);
        self.out.storage_ops = ops;
        self.out.setup_ops = self.setup_ops;
        self.out.sim_time_us = time + tantivy::verif_sim::with_knobs(|k| k.clock_us);
        self.out.sched_sig = sig;
        for (k, v) in stats.faults_fired {
            *self.out.faults_fired.entry(k).or_insert(0) += v;
        }
        for (k, v) in stats.ops_by_kind {
            self.out.ops_by_kind.insert(format!("{k:?}"), v);
        }
        if let Some((_, k, _, t)) = &first_fault {
            // which thread class met the fault, for the evidence ("on any thread")
            let class: String = t.split('#').next().unwrap_or("").trim_end_matches(|c: char| c.is_ascii_digit()).to_string();
            self.out.probe(&format!("fault_on:{class}:{k:?}"));
        }
        self.out.first_fault = first_fault.map(|(q, k, p, t)| format!("op {q} {k:?} {p} on {t}"));
        // violations of runs that contain the trigger pattern of an OPEN known finding
        let open: Vec<String> = KNOWN.with(|k| k.borrow().clone());
        let trig: Vec<String> = self.out.known_triggers.iter().filter(|t| open.contains(t)).cloned().collect();
        if let Some(t) = trig.first() {
            let vs = std::mem::take(&mut self.out.violations);
            for v in vs {
                self.out.known_hits.push((t.clone(), v));
            }
        }
        let panics = tantivy::verif_sim::caught_thread_panics();
        if panics > 0 {
            self.out.probe_n("background_thread_panics", panics);
        }
        self.out
    }
}

pub fn short_op(op: &Op) -> String {
    match op {
        Op::Add(d) => format!("Add(uid={},key={},body={:?},tag={},sortv={:?})", d.uid, d.key, d.body_text(), d.tag, d.sortv),
        Op::Batch(b) => format!(
            "Batch[{}]",
            b.iter()
                .map(|o| match o {
                    BatchOp::Add(d) => format!("Add(uid={},key={})", d.uid, d.key),
                    BatchOp::Delete(k) => format!("Del(key={k})"),
                })
                .collect::<Vec<_>>()
                .join(",")
        ),
        other => format!("{other:?}"),
    }
}
