//! Profiles for C01, C05, C10, C11, C18, C20 (crash, readers, GC, faults, lock, damage).

use crate::exec::{self, catch, check_exact_files, compare, Exec, RunOut};
use crate::model::DocSpec;
use crate::rng::{derive, Rng};
use crate::sched::{self, draw_strategy};
use crate::simdir::{self, image_hash, Image, OpKind, SimDir, TailMode};
use crate::workload::*;
use std::collections::{BTreeMap, BTreeSet};
use std::path::{Path, PathBuf};
use tantivy::Index;

pub fn gen_case2(prop: &str, seed: u64, thorough: bool, rng: &mut Rng) -> Case {
    match prop {
        "C01" => {
            let mut cfg = base_cfg(rng, Profile::Crash, thorough);
            cfg.index_threads = cfg.index_threads.min(3);
            cfg.faults.short_write_pct = *rng.pick(&[0u32, 0, 2, 5]);
            cfg.faults.eintr_pct = *rng.pick(&[0u32, 0, 1, 3]);
            cfg.faults.seed = rng.next_u64();
            cfg.strategy = draw_strategy(rng, &crate::profiles::CLASSES_ALL);
            cfg.crash_every = true;
            cfg.crash_samples = if thorough { 0 } else { 12 };
            let mut g = Gen { rng: Rng::new(rng.next_u64()), next_uid: 1 };
            let n = rng.range(3, 18) as usize;
            let mut ops = gen_history(&mut g, &cfg, n, rng.chance(1, 2), true, true);
            // sometimes a window of concurrent producers (committed at once): crash points then also
            // fall between storage operations caused by several client threads
            if rng.chance(1, 4) {
                let np = rng.range(2, 3) as usize;
                let mut ps = vec![];
                for _ in 0..np {
                    let mut p = vec![];
                    for _ in 0..rng.range(1, 3) {
                        if rng.chance(2, 3) {
                            p.push(ProdOp::Add(g.doc(cfg.nkeys)));
                        } else {
                            p.push(ProdOp::DeleteKey(rng.below(cfg.nkeys)));
                        }
                    }
                    ps.push(p);
                }
                let at = rng.below(ops.len() as u64 + 1) as usize;
                ops.insert(at, Op::Fork(ps));
            }
            Case { seed, cfg, ops }
        }
        _ => crate::profiles3::gen_case3(prop, seed, thorough, rng),
    }
}

pub fn body2(prop: &'static str, case: &Case) -> RunOut {
    match prop {
        "C01" => body_crash(case),
        _ => crate::profiles3::body3(prop, case),
    }
}

pub fn exec_special2(e: &mut Exec, op: &Op) {
    crate::profiles3::exec_special3(e, op);
}

pub fn harness_fail(msg: String) -> RunOut {
    let mut o = RunOut::default();
    o.harness_error = Some(msg);
    o
}

// ----------------------------------------------------------------------------------------------
// C01: crash images

fn body_crash(case: &Case) -> RunOut {
    let mut e = match Exec::new(case, "C01") {
        Ok(e) => e,
        Err(m) => return harness_fail(m),
    };
    e.dir.arm(true);
    e.run_ops();
    e.phase_quiesce(true);
    e.check_publications();
    if e.out.violations.is_empty() {
        evaluate_crash_images(&mut e);
    }
    e.out.nontrivial = e.out.commits_ok >= 1 && e.out.images_distinct >= 2;
    sched::set_calm(false);
    e.finish()
}

fn describe_boundary(dir: &SimDir, k: u64) -> String {
    dir.with(|s| {
        let next = s.log.iter().find(|r| r.seq == k).map(|r| {
            format!("{:?} {} by {}", r.kind, s.paths[r.path as usize].display(), s.tasks[r.task as usize])
        });
        let prev = s.log.iter().rev().find(|r| r.seq + 1 == k).map(|r| {
            format!("{:?} {} by {}", r.kind, s.paths[r.path as usize].display(), s.tasks[r.task as usize])
        });
        format!("after [{}] before [{}]", prev.unwrap_or_default(), next.unwrap_or("end of run".into()))
    })
}

/// Files a recovered index needs: everything its meta.json references + the two metadata files.
fn referenced_files(index: &Index) -> tantivy::Result<BTreeSet<PathBuf>> {
    let metas = index.searchable_segment_metas()?;
    Ok(exec::expected_files(&metas))
}

pub fn evaluate_crash_images(e: &mut Exec) {
    let n_ops = e.dir.op_count();
    let thorough_writer_step = e.case.cfg.crash_samples == 0;
    let mut seen: BTreeSet<(u64, Vec<usize>)> = BTreeSet::new();
    let mut rng = Rng::new(derive(e.case.seed, &[77]));
    let boundaries: Vec<u64> = if e.case.cfg.crash_every {
        (e.setup_ops..=n_ops).collect()
    } else {
        let mut v: Vec<u64> = (0..e.case.cfg.crash_samples).map(|_| rng.range(e.setup_ops, n_ops)).collect();
        v.sort();
        v.dedup();
        v
    };
    let mut writer_step_count = 0u64;
    for k in boundaries {
        let allowed = e.allowed_at(k);
        // quick tier: the seeded-random outcome at every third boundary (offset by the run seed)
        let random_here = thorough_writer_step || (k + e.case.seed) % 3 == 0;
        for mode in [
            TailMode::Minimal,
            TailMode::Maximal,
            TailMode::RenamesOnly,
            TailMode::Random(derive(e.case.seed, &[k])),
            TailMode::Subset(derive(e.case.seed, &[k, 1])),
        ] {
            if !random_here && matches!(mode, TailMode::Random(_) | TailMode::Subset(_)) {
                continue;
            }
            let img = e.dir.image_at(k, mode);
            e.out.images_evaluated += 1;
            let h = image_hash(&img);
            if !seen.insert((h, allowed.clone())) {
                continue;
            }
            e.out.images_distinct += 1;
            e.out.image_hashes.push(h);
            if mode == TailMode::Minimal && allowed.len() == 1 {
                e.out.probe("minimal_image_after_commit_returned");
            }
            // every recovered writer leaves a few finished tasks behind whose stacks the runtime keeps
            // until the execution ends: bound the number of writer steps per run
            let cap = if thorough_writer_step { 400 } else { 150 };
            let do_writer = writer_step_count < cap && (thorough_writer_step || (h % 8 == 0));
            if do_writer {
                writer_step_count += 1;
            }
            if e.out.sample_notes.len() < 4 && e.out.images_distinct % 97 == 1 {
                let w = describe_boundary(&e.dir, k);
                e.out.note(format!("crash image: boundary {k} ({w}), outcome {mode:?}, {} files, allowed commits {allowed:?}, writer step {do_writer}", img.len()));
            }
            let ordered = !matches!(mode, TailMode::Subset(_));
            if let Err(msg) = evaluate_image(e, &img, &allowed, do_writer, k, ordered) {
                let where_ = describe_boundary(&e.dir, k);
                e.out.violate(
                    "C01",
                    &msg.0,
                    format!("crash at storage boundary {k} ({where_}), outcome {mode:?}: {}", msg.1),
                );
                return;
            }
        }
    }
    e.out.probe_n("crash_images_with_writer_step", writer_step_count);
}

/// (oracle, detail)
type Fail = (String, String);

pub fn evaluate_image(e: &mut Exec, img: &Image, allowed: &[usize], writer_step: bool, k: u64, orphan_clause: bool) -> Result<(), Fail> {
    // (1) + (3): opens and exposes exactly one allowed commit
    let m = e.open_and_match(img, allowed).map_err(|d| ("recovered_state".to_string(), d))?;
    // (2) checksums
    let d = SimDir::from_image(img, true);
    let index = Index::open(simdir::boxed(&d)).map_err(|x| ("reopen".to_string(), x.to_string()))?;
    match catch(|| index.validate_checksum()) {
        Err(p) => return Err(("validate_checksum_panic".into(), p)),
        Ok(Err(x)) => return Err(("validate_checksum_error".into(), x.to_string())),
        Ok(Ok(damaged)) => {
            if !damaged.is_empty() {
                return Err(("checksum".into(), format!("recovered index has damaged files {damaged:?}")));
            }
        }
    }
    // (4) nothing outside the recovered metadata closure is needed
    let refs = referenced_files(&index).map_err(|x| ("load_metas".to_string(), x.to_string()))?;
    let stripped: Image = img.iter().filter(|(p, _)| refs.contains(*p)).map(|(p, d)| (p.clone(), d.clone())).collect();
    if stripped.len() != img.len() {
        e.out.probe("crash_image_with_unreferenced_files");
        let m2 = e
            .open_and_match(&stripped, &[m])
            .map_err(|d| ("needs_unreferenced_file".to_string(), d))?;
        debug_assert_eq!(m, m2);
    }
    // (5) accepts a new writer, a commit and garbage collection; no orphan afterwards
    if writer_step {
        let d2 = SimDir::from_image(img, true);
        let cfg = e.case.cfg.clone();
        let extra = DocSpec { uid: 1_000_000 + k, key: 77, body: vec![0], tag: 0, sortv: Some(1), js: 0 };
        let fields = e.fields.clone();
        // the new writer also deletes by the key of a recovered document: its commit then writes a
        // `.del` file for a recovered segment (whose name may collide with a leftover of the crash)
        let del_key: Option<u64> = e.model.commits[m].docs.first().map(|d| d.key);
        let res = catch(|| -> tantivy::Result<Index> {
            let index2 = Index::open(simdir::boxed(&d2))?;
            let mut w = exec::make_writer(&index2, &cfg, 1)?;
            if let Some(kk) = del_key {
                w.delete_term(tantivy::Term::from_field_u64(fields.key, kk));
            }
            w.add_document(extra.to_tantivy(&fields))?;
            w.commit()?;
            w.garbage_collect_files().wait()?;
            w.wait_merging_threads()?;
            Ok(index2)
        });
        let index2 = match res {
            Err(p) => return Err(("recovered_writer_panic".into(), p)),
            Ok(Err(x)) => return Err(("recovered_writer_error".into(), x.to_string())),
            Ok(Ok(i)) => i,
        };
        sched::quiesce();
        // one more GC by a fresh writer: merges of the recovered writer may have ended after its GC
        let res = catch(|| -> tantivy::Result<()> {
            let w = exec::make_writer(&index2, &cfg, 1)?;
            w.garbage_collect_files().wait()?;
            w.wait_merging_threads()?;
            Ok(())
        });
        match res {
            Err(p) => return Err(("recovered_writer_panic".into(), p)),
            Ok(Err(x)) => return Err(("recovered_writer_error".into(), x.to_string())),
            Ok(Ok(())) => {}
        }
        sched::quiesce();
        let dump = crate::dump::dump_index(&index2, &e.fields)
            .map_err(|x| ("recovered_read".to_string(), x.to_string()))?;
        let mut docs = e.model.commits[m].docs.clone();
        if let Some(kk) = del_key {
            docs.retain(|d| d.key != kk);
        }
        docs.push(extra.clone());
        e.specs.insert(extra.uid, extra);
        compare(&dump, &docs, &e.fields).map_err(|x| ("recovered_plus_commit".to_string(), x))?;
        // A file whose creation survived while the `.managed.json` update registering it did not
        // (possible only when un-synced namespace operations persist out of order) can never be
        // collected: the exact-files clause is checked under the ordered outcomes only.
        if orphan_clause {
            check_exact_files(&d2, &index2, &BTreeSet::new())
                .map_err(|x| ("C10_after_recovery".to_string(), x))?;
        }
    }
    Ok(())
}

#[allow(dead_code)]
fn unused(_: &BTreeMap<u8, u8>, _: &Path, _: OpKind) {}
