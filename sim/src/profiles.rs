//! Per-property profiles: case generation and the body executed inside the simulation.

use crate::exec::{Exec, RunOut};
use crate::rng::{derive, hash_str, Rng};
use crate::sched::{self, draw_strategy};
use crate::workload::*;

pub fn tier_code(thorough: bool) -> u64 {
    if thorough {
        2
    } else {
        1
    }
}

/// The seed of run `i` of a check.
pub fn run_seed(verif_seed: u64, prop: &str, thorough: bool, i: u64) -> u64 {
    derive(verif_seed, &[hash_str(prop), tier_code(thorough), i])
}

pub const CLASSES_ALL: [&str; 5] =
    ["merge_thread", "segment_updater", "thrd-tantivy-index", "docstore", "watch"];

/// Generate the case for (property, run seed).
pub fn gen_case(prop: &str, seed: u64, thorough: bool) -> Case {
    let mut rng = Rng::new(seed);
    match prop {
        "C02" => {
            let mut cfg = base_cfg(&mut rng, Profile::History, thorough);
            cfg.strategy = draw_strategy(&mut rng, &CLASSES_ALL);
            let mut g = Gen { rng: Rng::new(rng.next_u64()), next_uid: 1 };
            let n = rng.range(4, 28) as usize;
            let dirty = rng.chance(1, 3);
            let ops = gen_history(&mut g, &cfg, n, false, true, dirty);
            Case { seed, cfg, ops }
        }
        "C04" | "C17" => {
            let mut cfg = base_cfg(&mut rng, Profile::Merge, thorough);
            if prop == "C17" {
                cfg.sorted = Some(rng.chance(1, 2));
            }
            if cfg.flush_after.is_none() && rng.chance(2, 3) {
                cfg.flush_after = Some(rng.range(1, 3) as u32);
            }
            cfg.strategy = draw_strategy(&mut rng, &["merge_thread", "merge_thread", "segment_updater", "thrd-tantivy-index"]);
            let mut g = Gen { rng: Rng::new(rng.next_u64()), next_uid: 1 };
            let n = rng.range(8, 30) as usize;
            let ops = gen_history(&mut g, &cfg, n, true, prop == "C04", false);
            Case { seed, cfg, ops }
        }
        _ => crate::profiles2::gen_case2(prop, seed, thorough, &mut rng),
    }
}

/// Execute a case for a property inside the simulation; returns the run's outcome.
pub fn body(prop: &'static str, case: &Case) -> RunOut {
    match prop {
        "C02" | "C04" | "C17" => {
            let mut e = match Exec::new(case, prop) {
                Ok(e) => e,
                Err(msg) => {
                    let mut o = RunOut::default();
                    o.harness_error = Some(msg);
                    return o;
                }
            };
            e.dir.arm(true);
            e.run_ops();
            e.phase_quiesce(true);
            e.check_publications();
            let n_seg_events = e.out.probes.get("merge_explicit_ok").cloned().unwrap_or(0);
            e.out.nontrivial = match prop {
                "C02" => e.out.commits_ok >= 1 && !e.model.last().docs.is_empty() || e.out.commits_ok >= 2,
                _ => e.out.commits_ok >= 1 && (n_seg_events >= 1 || e.out.publications_checked > e.out.commits_ok),
            };
            sched::set_calm(false);
            e.finish()
        }
        _ => crate::profiles2::body2(prop, case),
    }
}

/// Ops that only some profiles use.
pub fn exec_special(e: &mut Exec, op: &Op) {
    crate::profiles2::exec_special2(e, op);
}
