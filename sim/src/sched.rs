//! The seeded scheduler: every context switch of a run is decided here.
//!
//! Strategies: uniform random, PCT(d), burst (sticky random), starve(class) windows.
//! Every decision taken with >= 2 runnable tasks is recorded; `Replay` feeds a record back.
//! `quiesce()` support: while the QUIESCING flag is set the main task (task 0) is only chosen
//! when it is the only runnable task, and that event sets QUIESCED.

use crate::rng::Rng;
use serde::{Deserialize, Serialize};
use shuttle::scheduler::{Schedule, Scheduler, Task, TaskId};
use std::cell::{Cell, RefCell};

#[derive(Clone, Debug, Serialize, Deserialize, PartialEq)]
pub enum Strategy {
    Random,
    /// depth d: d-1 priority change points over `est_steps`
    Pct { depth: u32, est_steps: u64 },
    /// keep the running task with probability keep/100
    Burst { keep: u32 },
    /// tasks whose name starts with `class` are held back between steps `from` and `until`
    /// unless nothing else is runnable; otherwise random.
    Starve { class: String, from: u64, until: u64 },
    /// the first task whose name starts with `class` is frozen for `len` steps when it is about to
    /// take its `nth` step (unless nothing else can run): "one thread stalls at a random point of
    /// its own execution"; otherwise sticky random
    Stall { class: String, nth: u32, len: u64 },
    /// replay a recorded choice list (task ids at each >=2-runnable decision)
    Replay { choices: Vec<u32> },
    /// round robin biased: used for fault-free phases where nothing adversarial is wanted
    RoundRobin,
}

#[derive(Default, Clone, Debug)]
pub struct SchedOut {
    pub steps: u64,
    pub choices: Vec<u32>,
    pub context_switches: u64,
    pub max_tasks: usize,
    pub replay_mismatch: Option<String>,
    pub task_names: Vec<String>,
}

thread_local! {
    pub static STEP: Cell<u64> = const { Cell::new(0) };
    static QUIESCING: Cell<bool> = const { Cell::new(false) };
    static QUIESCED: Cell<bool> = const { Cell::new(false) };
    /// when set, the scheduler behaves as round robin whatever its strategy (phases Q and R)
    static CALM: Cell<bool> = const { Cell::new(false) };
    pub static OUT: RefCell<SchedOut> = RefCell::new(SchedOut::default());
}

pub fn step() -> u64 {
    STEP.with(|s| s.get())
}

pub fn set_calm(on: bool) {
    CALM.with(|c| c.set(on));
}

/// Park the calling (main) task until no other task is runnable.
pub fn quiesce() {
    QUIESCED.with(|q| q.set(false));
    QUIESCING.with(|q| q.set(true));
    let mut n = 0u64;
    while !QUIESCED.with(|q| q.get()) {
        shuttle::thread::yield_now();
        n += 1;
        if n > 5_000_000 {
            panic!("HARNESS: quiesce did not converge");
        }
    }
    QUIESCING.with(|q| q.set(false));
}

pub struct SeededScheduler {
    strategy: Strategy,
    rng: Rng,
    started: bool,
    steps: u64,
    // pct
    prio: Vec<i64>, // by task id; higher runs first
    change_points: Vec<u64>,
    next_low: i64,
    // replay
    replay_pos: usize,
    rr_last: usize,
    record: bool,
    /// sleeping tasks: task id -> (other task id -> steps it still has to run before the sleeper wakes)
    sleepers: std::collections::BTreeMap<usize, std::collections::BTreeMap<usize, u32>>,
    last_sleep_count: u64,
    // stall strategy: steps taken per task, the task being stalled and until when
    taken: Vec<u32>,
    stalled: Option<(usize, u64)>,
    stall_done: bool,
    /// a simulated sleep (100 ms) is far longer than any stall/starve window: it ends them
    windows_over: bool,
}

impl SeededScheduler {
    pub fn new(strategy: Strategy, seed: u64) -> SeededScheduler {
        let mut rng = Rng::new(seed);
        let mut change_points = vec![];
        if let Strategy::Pct { depth, est_steps } = &strategy {
            for _ in 1..*depth {
                change_points.push(rng.below((*est_steps).max(1)));
            }
            change_points.sort();
        }
        SeededScheduler {
            strategy,
            rng,
            started: false,
            steps: 0,
            prio: vec![],
            change_points,
            next_low: -1,
            replay_pos: 0,
            rr_last: 0,
            record: true,
            sleepers: Default::default(),
            last_sleep_count: 0,
            taken: vec![],
            stalled: None,
            stall_done: false,
            windows_over: false,
        }
    }

    fn ensure_prio(&mut self, id: usize) {
        while self.prio.len() <= id {
            // random initial priority in a large positive range
            let p = 1_000 + self.rng.below(1_000_000) as i64;
            self.prio.push(p);
        }
    }
}

fn name_of(t: &Task) -> String {
    t.name().unwrap_or_default()
}

impl Scheduler for SeededScheduler {
    fn new_execution(&mut self) -> Option<Schedule> {
        if self.started {
            return None;
        }
        self.started = true;
        // the knobs still hold the previous run's values until the run's setup resets them
        self.last_sleep_count = tantivy::verif_sim::with_knobs(|k| k.sleep_count);
        STEP.with(|s| s.set(0));
        QUIESCING.with(|q| q.set(false));
        QUIESCED.with(|q| q.set(false));
        CALM.with(|c| c.set(false));
        OUT.with(|o| *o.borrow_mut() = SchedOut::default());
        Some(Schedule::new(0))
    }

    fn next_task(
        &mut self,
        runnable: &[&Task],
        current: Option<TaskId>,
        is_yielding: bool,
    ) -> Option<TaskId> {
        self.steps += 1;
        STEP.with(|s| s.set(self.steps));
        let cur: Option<usize> = current.map(|c| c.into());
        let ids: Vec<usize> = runnable.iter().map(|t| t.id().into()).collect();
        let maxid = *ids.iter().max().unwrap();
        OUT.with(|o| {
            let mut o = o.borrow_mut();
            o.steps = self.steps;
            if o.max_tasks < maxid + 1 {
                o.max_tasks = maxid + 1;
            }
            for t in runnable {
                let id: usize = t.id().into();
                while o.task_names.len() <= id {
                    o.task_names.push(String::new());
                }
                if o.task_names[id].is_empty() {
                    o.task_names[id] = name_of(t);
                }
            }
        });

        // simulated sleep: `verif_sim::thread::sleep` yields after bumping the sleep counter. The
        // sleeper is not eligible until every task that was runnable at that moment has run
        // SLEEP_QUANTUM steps (or stopped being runnable): "100 ms later" means "after everybody
        // else made progress", otherwise lock retry loops time out under priority schedulers.
        const SLEEP_QUANTUM: u32 = 8;
        let sc = tantivy::verif_sim::with_knobs(|k| k.sleep_count);
        if sc < self.last_sleep_count {
            // the per-run knobs were reset (start of a run): not a sleep
            self.last_sleep_count = sc;
        }
        if sc > self.last_sleep_count {
            self.last_sleep_count = sc;
            // time passes while somebody sleeps: a thread held back by `stall`/`starve` gets the CPU
            // long before a 100 ms sleep is over (otherwise lock retry loops would time out on a
            // holder that the strategy, not the program, keeps from running)
            self.windows_over = true;
            self.stalled = None;
            self.stall_done = true;
            if let (Some(c), true) = (cur, is_yielding) {
                let others = ids.iter().filter(|i| **i != c).map(|i| (*i, SLEEP_QUANTUM)).collect();
                self.sleepers.insert(c, others);
            }
        }
        if !self.sleepers.is_empty() {
            for pending in self.sleepers.values_mut() {
                pending.retain(|t, n| *n > 0 && ids.contains(t));
            }
            self.sleepers.retain(|_, pending| !pending.is_empty());
        }
        let asleep: Vec<usize> = self.sleepers.keys().cloned().filter(|t| ids.contains(t)).collect();
        // quiescence: main task (0) only when alone
        let quiescing = QUIESCING.with(|q| q.get());
        let mut cand: Vec<usize> = ids.clone();
        if quiescing {
            if cand.len() == 1 && cand[0] == 0 {
                QUIESCED.with(|q| q.set(true));
                return Some(TaskId::from(0usize));
            }
            cand.retain(|i| *i != 0);
            if cand.is_empty() {
                cand = ids.clone();
            }
        }
        if !asleep.is_empty() {
            let awake: Vec<usize> = cand.iter().cloned().filter(|i| !asleep.contains(i)).collect();
            if !awake.is_empty() {
                cand = awake;
            }
        }
        let calm = CALM.with(|c| c.get()) || quiescing;

        let replaying = matches!(self.strategy, Strategy::Replay { .. });
        if replaying {
            // a replay consumes one recorded choice at every decision with >= 2 runnable tasks
            cand = ids.clone();
        }
        let choice: usize = if cand.len() == 1 {
            cand[0]
        } else if calm && !replaying {
            // round robin over task ids, starting after the last chosen; a yielding task goes last
            let mut sorted = cand.clone();
            sorted.sort();
            let mut pick = None;
            for i in &sorted {
                if *i > self.rr_last && !(is_yielding && Some(*i) == cur) {
                    pick = Some(*i);
                    break;
                }
            }
            let pick = pick.unwrap_or_else(|| {
                *sorted
                    .iter()
                    .find(|i| !(is_yielding && Some(**i) == cur))
                    .unwrap_or(&sorted[0])
            });
            // stay on the current task when it is runnable and not yielding: fewer switches
            if let Some(c) = cur {
                if !is_yielding && sorted.contains(&c) {
                    c
                } else {
                    pick
                }
            } else {
                pick
            }
        } else {
            match &self.strategy {
                Strategy::Replay { choices } => {
                    if self.replay_pos < choices.len() {
                        let c = choices[self.replay_pos] as usize;
                        self.replay_pos += 1;
                        if !cand.contains(&c) {
                            OUT.with(|o| {
                                let mut o = o.borrow_mut();
                                if o.replay_mismatch.is_none() {
                                    o.replay_mismatch = Some(format!(
                                        "step {}: recorded task {} not runnable (runnable {:?})",
                                        self.steps, c, cand
                                    ));
                                }
                            });
                            cand[0]
                        } else {
                            c
                        }
                    } else {
                        // past the record: stay on current if possible, else lowest id
                        match cur {
                            Some(c) if cand.contains(&c) && !is_yielding => c,
                            _ => *cand.iter().find(|i| Some(**i) != cur).unwrap_or(&cand[0]),
                        }
                    }
                }
                Strategy::Random | Strategy::RoundRobin => {
                    let mut c2 = cand.clone();
                    if is_yielding && c2.len() > 1 {
                        c2.retain(|i| Some(*i) != cur);
                    }
                    c2[self.rng.below(c2.len() as u64) as usize]
                }
                Strategy::Burst { keep } => {
                    let keep = *keep as u64;
                    match cur {
                        Some(c) if !is_yielding && cand.contains(&c) && self.rng.below(100) < keep => c,
                        _ => {
                            let mut c2 = cand.clone();
                            if is_yielding && c2.len() > 1 {
                                c2.retain(|i| Some(*i) != cur);
                            }
                            c2[self.rng.below(c2.len() as u64) as usize]
                        }
                    }
                }
                Strategy::Stall { class, nth, len } => {
                    let (nth, len) = (*nth, *len);
                    if !self.stall_done && self.stalled.is_none() {
                        for t in runnable {
                            let id: usize = t.id().into();
                            let cnt = self.taken.get(id).cloned().unwrap_or(0);
                            if cnt == nth && name_of(t).starts_with(class.as_str()) {
                                self.stalled = Some((id, self.steps + len));
                                break;
                            }
                        }
                    }
                    let mut c2: Vec<usize> = cand.clone();
                    if let Some((id, until)) = self.stalled {
                        if self.steps >= until {
                            self.stalled = None;
                            self.stall_done = true;
                        } else {
                            let rest: Vec<usize> = c2
                                .iter()
                                .cloned()
                                .filter(|i| *i != id && !(is_yielding && Some(*i) == cur))
                                .collect();
                            if !rest.is_empty() {
                                c2 = rest;
                            }
                        }
                    }
                    if is_yielding && c2.len() > 1 {
                        c2.retain(|i| Some(*i) != cur);
                    }
                    match cur {
                        Some(c) if !is_yielding && c2.contains(&c) && self.rng.below(100) < 60 => c,
                        _ => c2[self.rng.below(c2.len() as u64) as usize],
                    }
                }
                Strategy::Starve { class, from, until } => {
                    let (from, until) = (*from, *until);
                    let mut c2: Vec<usize> = cand.clone();
                    if self.steps >= from && self.steps < until && !self.windows_over {
                        let starved: Vec<usize> = runnable
                            .iter()
                            .filter(|t| name_of(t).starts_with(class.as_str()))
                            .map(|t| t.id().into())
                            .collect();
                        let rest: Vec<usize> =
                            c2.iter().cloned().filter(|i| !starved.contains(i)).collect();
                        // a yielding task alone with starved tasks must not spin forever
                        let rest_non_yield: Vec<usize> = rest
                            .iter()
                            .cloned()
                            .filter(|i| !(is_yielding && Some(*i) == cur))
                            .collect();
                        if !rest_non_yield.is_empty() {
                            c2 = rest_non_yield;
                        } else if !rest.is_empty() && !is_yielding {
                            c2 = rest;
                        }
                    } else if is_yielding && c2.len() > 1 {
                        c2.retain(|i| Some(*i) != cur);
                    }
                    // sticky random among the allowed ones
                    match cur {
                        Some(c) if !is_yielding && c2.contains(&c) && self.rng.below(100) < 70 => c,
                        _ => c2[self.rng.below(c2.len() as u64) as usize],
                    }
                }
                Strategy::Pct { .. } => {
                    self.ensure_prio(maxid);
                    if let Some(c) = cur {
                        self.ensure_prio(c);
                        let mut lower = is_yielding;
                        while !self.change_points.is_empty() && self.change_points[0] <= self.steps {
                            self.change_points.remove(0);
                            lower = true;
                        }
                        if lower {
                            self.prio[c] = self.next_low;
                            self.next_low -= 1;
                        }
                    }
                    let mut best = cand[0];
                    for i in &cand {
                        if self.prio[*i] > self.prio[best] {
                            best = *i;
                        }
                    }
                    best
                }
            }
        };
        if self.record && ids.len() > 1 {
            OUT.with(|o| {
                let mut o = o.borrow_mut();
                o.choices.push(choice as u32);
                if cur.is_some() && cur != Some(choice) {
                    o.context_switches += 1;
                }
            });
        }
        while self.taken.len() <= choice {
            self.taken.push(0);
        }
        self.taken[choice] += 1;
        for pending in self.sleepers.values_mut() {
            if let Some(n) = pending.get_mut(&choice) {
                *n = n.saturating_sub(1);
            }
        }
        self.sleepers.remove(&choice);
        self.rr_last = choice;
        Some(TaskId::from(choice))
    }

    fn next_u64(&mut self) -> u64 {
        self.rng.next_u64()
    }
}

/// Draw a strategy for a run. `classes`: thread-name prefixes that may be starved in this profile.
pub fn draw_strategy(rng: &mut Rng, classes: &[&str]) -> Strategy {
    let w = [20u32, 30, 12, if classes.is_empty() { 0 } else { 20 }, if classes.is_empty() { 0 } else { 18 }];
    match rng.weighted(&w) {
        0 => Strategy::Random,
        1 => {
            let depth = rng.range(1, 4) as u32;
            // log-uniform step estimate
            let e = rng.range(6, 14); // 64 .. 16384
            let est = (1u64 << e) + rng.below(1u64 << e);
            Strategy::Pct { depth, est_steps: est }
        }
        2 => Strategy::Burst { keep: rng.range(70, 97) as u32 },
        4 => {
            let class = rng.pick(classes).to_string();
            let span = *rng.pick(&[8u64, 24, 64, 200]);
            let nth = rng.below(span) as u32;
            let le = rng.range(5, 13);
            Strategy::Stall { class, nth, len: 1 + rng.below(1u64 << le) }
        }
        _ => {
            let class = rng.pick(classes).to_string();
            let e = rng.range(3, 13);
            let from = rng.below(1u64 << e);
            let le = rng.range(5, 14);
            let len = 1 + rng.below(1u64 << le);
            Strategy::Starve { class, from, until: from + len }
        }
    }
}

pub fn strategy_name(s: &Strategy) -> String {
    match s {
        Strategy::Random => "random".into(),
        Strategy::Pct { depth, .. } => format!("pct{depth}"),
        Strategy::Burst { .. } => "burst".into(),
        Strategy::Starve { class, .. } => format!("starve:{class}"),
        Strategy::Stall { class, .. } => format!("stall:{class}"),
        Strategy::Replay { .. } => "replay".into(),
        Strategy::RoundRobin => "rr".into(),
    }
}
