//! Runs one case inside a fresh shuttle execution under the seeded scheduler.

use crate::exec::{RunOut, Violation, LAST_PANIC};
use crate::sched::{SeededScheduler, OUT};
use crate::workload::Case;
use std::panic::{catch_unwind, AssertUnwindSafe};
use std::sync::{Arc, Mutex};

pub fn install_panic_hook() {
    std::panic::set_hook(Box::new(|info| {
        let loc = info.location().map(|l| format!("{}:{}", l.file(), l.line())).unwrap_or_default();
        LAST_PANIC.with(|l| *l.borrow_mut() = loc);
        if std::env::var("TVSIM_PANIC_VERBOSE").is_ok() {
            eprintln!("panic: {info}\n{}", std::backtrace::Backtrace::force_capture());
        }
    }));
}

pub fn run_case(prop: &'static str, case: &Case) -> RunOut {
    let slot: Arc<Mutex<Option<RunOut>>> = Arc::new(Mutex::new(None));
    let slot2 = slot.clone();
    let case2 = case.clone();
    crate::exec::ESCALATED.with(|e| *e.borrow_mut() = None);
    // objects of an abandoned execution must not be dropped outside of it: leak them
    crate::profiles4::forget_stale();
    let sched = SeededScheduler::new(case.cfg.strategy.clone(), case.cfg.sched_seed);
    let mut config = shuttle::Config::new();
    config.stack_size = 1 << 20;
    config.max_steps = shuttle::MaxSteps::FailAfter(4_000_000);
    config.failure_persistence = shuttle::FailurePersistence::None;
    config.silence_warnings = true;
    let res = catch_unwind(AssertUnwindSafe(|| {
        shuttle::Runner::new(sched, config).run(move || {
            let out = crate::profiles::body(prop, &case2);
            *slot2.lock().unwrap() = Some(out);
        });
    }));
    let sched_out = OUT.with(|o| o.borrow().clone());
    let mut out = match res {
        Ok(()) => slot.lock().unwrap().take().unwrap_or_else(|| {
            let mut o = RunOut::default();
            o.harness_error = Some("execution finished without a result".into());
            o
        }),
        Err(p) => {
            let msg = if let Some(s) = p.downcast_ref::<&str>() {
                s.to_string()
            } else if let Some(s) = p.downcast_ref::<String>() {
                s.clone()
            } else {
                "unknown panic".to_string()
            };
            let loc = LAST_PANIC.with(|l| l.borrow().clone());
            let mut o = slot.lock().unwrap().take().unwrap_or_default();
            if let Some(esc) = crate::exec::ESCALATED.with(|e| e.borrow_mut().take()) {
                o = esc;
            } else if msg.contains("deadlock") {
                let p = if case.cfg.profile == crate::workload::Profile::Fault { "C11" } else { prop };
                o.violations.push(Violation {
                    prop: p.to_string(),
                    oracle: "deadlock".into(),
                    detail: format!("no runnable task: {}", msg.chars().take(600).collect::<String>()),
                });
            } else if msg.contains("exceeded max_steps") || msg.contains("HARNESS: quiesce") {
                o.probes.insert("budget_exceeded".into(), 1);
                o.harness_error = Some(format!("budget: {msg}"));
            } else if msg.contains("Cannot allocate memory") || msg.contains("OutOfMemory") {
                // the simulator itself ran out of address space / mappings (task stacks)
                o.harness_error = Some(format!("HARNESS: resource exhaustion in the simulator: {msg}"));
            } else if msg.starts_with("HARNESS") {
                o.harness_error = Some(msg);
            } else {
                // a panic that escaped every catch inside the body: report against the property
                o.violations.push(Violation {
                    prop: prop.to_string(),
                    oracle: "escaped_panic".into(),
                    detail: format!("{} [{loc}]", msg.chars().take(600).collect::<String>()),
                });
            }
            o
        }
    };
    out.steps = sched_out.steps;
    out.context_switches = sched_out.context_switches;
    out.tasks = sched_out.max_tasks;
    out.choices = sched_out.choices;
    if let Some(m) = sched_out.replay_mismatch {
        out.harness_error = Some(format!("nondeterminism: replay mismatch: {m}"));
    }
    out
}
