//! Small deterministic PRNG (splitmix64 seeding + xoshiro256**). Everything random in the
//! simulator derives from one `VERIF_SEED` through `derive`.

#[derive(Clone, Debug)]
pub struct Rng {
    s: [u64; 4],
}

pub fn splitmix(x: &mut u64) -> u64 {
    *x = x.wrapping_add(0x9E37_79B9_7F4A_7C15);
    let mut z = *x;
    z = (z ^ (z >> 30)).wrapping_mul(0xBF58_476D_1CE4_E5B9);
    z = (z ^ (z >> 27)).wrapping_mul(0x94D0_49BB_1331_11EB);
    z ^ (z >> 31)
}

/// Derive a sub-seed from a seed and a list of tags.
pub fn derive(seed: u64, tags: &[u64]) -> u64 {
    let mut x = seed ^ 0xA076_1D64_78BD_642F;
    let mut out = splitmix(&mut x);
    for t in tags {
        x ^= t.wrapping_mul(0xE703_7ED1_A0B4_28DB);
        out ^= splitmix(&mut x);
    }
    out
}

pub fn hash_str(s: &str) -> u64 {
    // FNV-1a
    let mut h: u64 = 0xcbf2_9ce4_8422_2325;
    for b in s.as_bytes() {
        h ^= *b as u64;
        h = h.wrapping_mul(0x0000_0100_0000_01B3);
    }
    h
}

pub fn hash_bytes(h0: u64, s: &[u8]) -> u64 {
    let mut h: u64 = h0 ^ 0xcbf2_9ce4_8422_2325;
    for b in s {
        h ^= *b as u64;
        h = h.wrapping_mul(0x0000_0100_0000_01B3);
    }
    h
}

impl Rng {
    pub fn new(seed: u64) -> Rng {
        let mut x = seed;
        let s = [splitmix(&mut x), splitmix(&mut x), splitmix(&mut x), splitmix(&mut x)];
        Rng { s }
    }
    pub fn next_u64(&mut self) -> u64 {
        let result = self.s[1].wrapping_mul(5).rotate_left(7).wrapping_mul(9);
        let t = self.s[1] << 17;
        self.s[2] ^= self.s[0];
        self.s[3] ^= self.s[1];
        self.s[1] ^= self.s[2];
        self.s[0] ^= self.s[3];
        self.s[2] ^= t;
        self.s[3] = self.s[3].rotate_left(45);
        result
    }
    /// Uniform in 0..n (n > 0).
    pub fn below(&mut self, n: u64) -> u64 {
        debug_assert!(n > 0);
        // multiply-shift; bias irrelevant for our n
        ((self.next_u64() as u128 * n as u128) >> 64) as u64
    }
    pub fn range(&mut self, lo: u64, hi_incl: u64) -> u64 {
        lo + self.below(hi_incl - lo + 1)
    }
    pub fn chance(&mut self, num: u64, den: u64) -> bool {
        self.below(den) < num
    }
    pub fn pick<'a, T>(&mut self, xs: &'a [T]) -> &'a T {
        &xs[self.below(xs.len() as u64) as usize]
    }
    pub fn shuffle<T>(&mut self, xs: &mut [T]) {
        for i in (1..xs.len()).rev() {
            let j = self.below(i as u64 + 1) as usize;
            xs.swap(i, j);
        }
    }
    /// Weighted pick: returns index.
    pub fn weighted(&mut self, w: &[u32]) -> usize {
        let total: u64 = w.iter().map(|x| *x as u64).sum();
        let mut r = self.below(total.max(1));
        for (i, x) in w.iter().enumerate() {
            if r < *x as u64 {
                return i;
            }
            r -= *x as u64;
        }
        w.len() - 1
    }
}
